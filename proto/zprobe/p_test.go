//go:build verif

package zprobe

import (
	"fmt"
	"testing"

	"github.com/lavanet/lava/v5/protocol/chainlib/extensionslib"
	"verif/proto/parsekit"
)

func TestProbe(t *testing.T) {
	parsekit.Quiet()
	cp, spec, err := parsekit.NewParser("ETH1", "jsonrpc")
	if err != nil {
		t.Fatal(err)
	}
	for _, c := range spec.ApiCollections {
		fmt.Printf("collection %+v enabled=%v apis=%d ext=%v\n", c.CollectionData, c.Enabled, len(c.Apis), c.Extensions)
		if c.CollectionData.AddOn == "" && c.CollectionData.ApiInterface == "jsonrpc" {
			for _, a := range c.Apis {
				fmt.Printf("   %s cu=%d en=%v bp=%v %v def=%q parsers=%d\n", a.Name, a.ComputeUnits, a.Enabled, a.BlockParsing.ParserFunc, a.BlockParsing.ParserArg, a.BlockParsing.DefaultValue, len(a.Parsers))
			}
		}
	}
	try := func(data string, latest uint64) {
		m, err := cp.ParseMsg("", []byte(data), "POST", nil, extensionslib.ExtensionInfo{LatestBlock: latest})
		if err != nil {
			fmt.Println(data, "ERR", err)
			return
		}
		l, e := m.RequestedBlock()
		fmt.Printf("%s latest=%d -> api=%s cu=%d req=(%d,%d) ext=%v\n", data, latest, m.GetApi().Name, m.GetApi().ComputeUnits, l, e, parsekit.ExtensionNames(m.GetExtensions()))
	}
	g := func(b string) string { return `{"jsonrpc":"2.0","id":1,"method":"eth_getBalance","params":["0x0000000000000000000000000000000000000000",` + b + `]}` }
	try(g(`"0x64"`), 1000000)
	try(g(`"0xc8"`), 1000000)
	try("["+g(`"0x64"`)+","+g(`"0xc8"`)+"]", 1000000)
	try("["+g(`"0xc8"`)+","+g(`"0x64"`)+"]", 1000000)
	try("["+g(`"latest"`)+","+g(`"0x64"`)+"]", 1000000)
	try("["+g(`"0x64"`)+","+g(`"latest"`)+"]", 1000000)
	try(`{"jsonrpc":"2.0","id":1,"method":"eth_call","params":[{"to":"0x00"},"0xa"]}`, 50)
	try(`{"jsonrpc":"2.0","id":1,"method":"eth_call","params":[{"to":"0x00"},"0xa"]}`, 1000000)
	try(`{"jsonrpc":"2.0","id":1,"method":"eth_call","params":[{"to":"0x00"},"latest"]}`, 1000000)
	try(`{"jsonrpc":"2.0","id":1,"method":"eth_blockNumber","params":[]}`, 1000000)
	try(`{"jsonrpc":"2.0","id":1,"method":"eth_getBlockByNumber","params":["earliest",false]}`, 1000000)
	try(`{"jsonrpc":"2.0","id":1,"method":"eth_getBlockByNumber","params":["0x0",false]}`, 1000000)
	try(`{"jsonrpc":"2.0","id":1,"method":"eth_getBlockByNumber","params":["pending",false]}`, 1000000)
}
