//go:build verif

// C25 — relay signatures bind every signed field.
//
// Real code observed: lavaprotocol.ConstructRelayRequest / sigs.Sign (consumer), sigs.ExtractSignerAddress on the
// *RelaySession (what the provider's ExtractConsumerAddress, the reward server and the chain's relay-payment
// handler call), lavaprotocol.SignRelayResponse (provider) and lavaprotocol.VerifyRelayReply (consumer).
package c25

import (
	"bytes"
	"context"
	"encoding/hex"
	"fmt"
	"math/rand"
	"reflect"
	"sort"
	"strings"
	"sync"
	"sync/atomic"
	"testing"
	"time"

	sdk "github.com/cosmos/cosmos-sdk/types"
	"github.com/lavanet/lava/v5/protocol/lavaprotocol"
	"github.com/lavanet/lava/v5/protocol/lavasession"
	"github.com/lavanet/lava/v5/protocol/qos"
	"github.com/lavanet/lava/v5/utils"
	"github.com/lavanet/lava/v5/utils/sigs"
	pairingtypes "github.com/lavanet/lava/v5/x/pairing/types"
	"github.com/rs/zerolog"

	"verif/internal/ev"
	"verif/internal/vrand"
)

type protoMsg interface {
	Marshal() ([]byte, error)
	Unmarshal([]byte) error
}

func mustMarshal(m protoMsg) []byte {
	b, err := m.Marshal()
	if err != nil {
		panic(err)
	}
	return b
}

func cloneSession(s *pairingtypes.RelaySession) *pairingtypes.RelaySession {
	out := &pairingtypes.RelaySession{}
	if err := out.Unmarshal(mustMarshal(s)); err != nil {
		panic(err)
	}
	return out
}

func cloneRequest(s *pairingtypes.RelayRequest) *pairingtypes.RelayRequest {
	out := &pairingtypes.RelayRequest{}
	if err := out.Unmarshal(mustMarshal(s)); err != nil {
		panic(err)
	}
	return out
}

func cloneReply(s *pairingtypes.RelayReply) *pairingtypes.RelayReply {
	out := &pairingtypes.RelayReply{}
	if err := out.Unmarshal(mustMarshal(s)); err != nil {
		panic(err)
	}
	return out
}

// ---------------------------------------------------------------------------------------------------------
// reflection walker: enumerates single-field mutation slots of a protobuf struct, so that a field added to the
// message later is mutated (and must be bound by the signature) without this file knowing about it.

var decType = reflect.TypeOf(sdk.Dec{})

type slot struct {
	Path  string // e.g. RelaySession.QosReport.Latency, RelaySession.UnresponsiveProviders[+]
	How   string
	apply func()
}

type walker struct {
	rng       *rand.Rand
	slots     []slot
	unhandled map[string]bool
}

func rbytes(rng *rand.Rand, minLen, maxLen int) []byte {
	n := minLen + rng.Intn(maxLen-minLen+1)
	b := make([]byte, n)
	for i := range b {
		if rng.Intn(5) == 0 {
			b[i] = byte(rng.Intn(256))
		} else {
			b[i] = byte('a' + rng.Intn(26))
		}
	}
	return b
}

func rdec(rng *rand.Rand) sdk.Dec {
	return sdk.NewDecWithPrec(int64(rng.Intn(1_000_000_000)), int64(rng.Intn(10)))
}

// fill sets v (addressable) to a random non-zero value of its type.
func (w *walker) fill(v reflect.Value) {
	switch {
	case v.Type() == decType:
		v.Set(reflect.ValueOf(rdec(w.rng).Add(sdk.SmallestDec())))
		return
	}
	switch v.Kind() {
	case reflect.String:
		v.SetString(string(rbytes(w.rng, 1, 8)))
	case reflect.Uint64, reflect.Uint32:
		v.SetUint(uint64(1 + w.rng.Intn(1000)))
	case reflect.Int64, reflect.Int32:
		v.SetInt(int64(1 + w.rng.Intn(1000)))
	case reflect.Bool:
		v.SetBool(true)
	case reflect.Slice:
		if v.Type().Elem().Kind() == reflect.Uint8 {
			v.SetBytes(rbytes(w.rng, 1, 8))
			return
		}
		e := reflect.New(v.Type().Elem()).Elem()
		w.fill(e)
		v.Set(reflect.Append(reflect.MakeSlice(v.Type(), 0, 1), e))
	case reflect.Ptr:
		p := reflect.New(v.Type().Elem())
		w.fill(p.Elem())
		v.Set(p)
	case reflect.Struct:
		for i := 0; i < v.NumField(); i++ {
			if v.Field(i).CanSet() && v.Field(i).Kind() != reflect.Interface {
				w.fill(v.Field(i))
			}
		}
	default:
		w.unhandled["fill:"+v.Type().String()] = true
	}
}

func (w *walker) add(path, how string, f func()) { w.slots = append(w.slots, slot{path, how, f}) }

func (w *walker) walk(v reflect.Value, path string) {
	if v.Type() == decType {
		w.add(path, "dec-add-smallest", func() {
			d := v.Interface().(sdk.Dec)
			if d.IsNil() {
				d = sdk.ZeroDec()
			}
			v.Set(reflect.ValueOf(d.Add(sdk.SmallestDec())))
		})
		return
	}
	switch v.Kind() {
	case reflect.String:
		w.add(path, "mutate-string", func() { v.SetString(string(mutBytes(w.rng, []byte(v.String())))) })
	case reflect.Uint64, reflect.Uint32:
		w.add(path, "add-1", func() { v.SetUint(v.Uint() + 1) })
	case reflect.Int64, reflect.Int32:
		w.add(path, "add-1", func() { v.SetInt(v.Int() + 1) })
	case reflect.Bool:
		w.add(path, "flip", func() { v.SetBool(!v.Bool()) })
	case reflect.Slice:
		if v.Type().Elem().Kind() == reflect.Uint8 {
			w.add(path, "mutate-bytes", func() { v.SetBytes(mutBytes(w.rng, v.Bytes())) })
			return
		}
		w.add(path+"[+]", "append-element", func() {
			e := reflect.New(v.Type().Elem()).Elem()
			w.fill(e)
			v.Set(reflect.Append(v, e))
		})
		n := v.Len()
		if n > 0 {
			i := w.rng.Intn(n)
			w.add(path+"[-]", "remove-element", func() {
				nv := reflect.MakeSlice(v.Type(), 0, n)
				nv = reflect.AppendSlice(nv, v.Slice(0, i))
				nv = reflect.AppendSlice(nv, v.Slice(i+1, n))
				v.Set(nv)
			})
			w.add(path+"[dup]", "duplicate-element", func() { v.Set(reflect.Append(v, v.Index(i))) })
			w.walk(v.Index(w.rng.Intn(n)), path+"[]")
		}
		if n > 1 && !reflect.DeepEqual(v.Index(0).Interface(), v.Index(n-1).Interface()) {
			w.add(path+"[swap]", "swap-first-last", func() {
				a, b := reflect.New(v.Type().Elem()).Elem(), reflect.New(v.Type().Elem()).Elem()
				a.Set(v.Index(0))
				b.Set(v.Index(n - 1))
				v.Index(0).Set(b)
				v.Index(n - 1).Set(a)
			})
		}
	case reflect.Ptr:
		if v.IsNil() {
			w.add(path, "set-nil-to-value", func() { w.fill(v) })
			return
		}
		if v.Elem().Kind() == reflect.Struct && strings.Count(path, ".") > 0 && !strings.HasSuffix(path, "[]") { // a nil list element cannot be marshalled
			w.add(path, "set-to-nil", func() { v.Set(reflect.Zero(v.Type())) })
		}
		w.walk(v.Elem(), path)
	case reflect.Struct:
		for i := 0; i < v.NumField(); i++ {
			w.walk(v.Field(i), path+"."+v.Type().Field(i).Name)
		}
	case reflect.Interface:
		// protobuf oneof wrappers of RelayPrivateData
		mk := func() reflect.Value {
			switch v.Type().String() {
			case "types.isRelayPrivateData_XTaskId":
				return reflect.ValueOf(&pairingtypes.RelayPrivateData_TaskId{TaskId: string(rbytes(w.rng, 1, 6)) + "T"})
			case "types.isRelayPrivateData_XTxId":
				return reflect.ValueOf(&pairingtypes.RelayPrivateData_TxId{TxId: string(rbytes(w.rng, 1, 6)) + "X"})
			}
			w.unhandled["oneof:"+v.Type().String()] = true
			return reflect.Value{}
		}
		if v.IsNil() {
			w.add(path, "set-oneof", func() {
				if nv := mk(); nv.IsValid() {
					v.Set(nv)
				}
			})
		} else {
			w.add(path, "clear-oneof", func() { v.Set(reflect.Zero(v.Type())) })
			w.add(path, "change-oneof", func() {
				if nv := mk(); nv.IsValid() {
					v.Set(nv)
				}
			})
		}
	default:
		w.unhandled["walk:"+path+":"+v.Type().String()] = true
	}
}

func mutBytes(rng *rand.Rand, s []byte) []byte {
	out := append([]byte{}, s...)
	switch k := rng.Intn(3); {
	case k == 0 || len(out) == 0:
		return append(out, byte('a'+rng.Intn(26)))
	case k == 1:
		return out[:len(out)-1]
	default:
		out[rng.Intn(len(out))] ^= byte(1 + rng.Intn(255))
		return out
	}
}

// slotsOf enumerates the slots of obj (a pointer to a struct); applyNth re-walks a fresh clone with the same PRNG
// stream and applies slot k only.
func slotsOf(obj any, root string, seed int64, stream string, i int) ([]slot, map[string]bool) {
	w := &walker{rng: vrand.Sub(seed, stream, i), unhandled: map[string]bool{}}
	w.walk(reflect.ValueOf(obj), root)
	return w.slots, w.unhandled
}

// diffPaths lists leaf paths where two values of the same type differ.
func diffPaths(a, b reflect.Value, path string, out *[]string) {
	if a.Type() == decType {
		if !reflect.DeepEqual(a.Interface(), b.Interface()) {
			*out = append(*out, path)
		}
		return
	}
	switch a.Kind() {
	case reflect.Ptr, reflect.Interface:
		if a.IsNil() || b.IsNil() {
			if a.IsNil() != b.IsNil() {
				*out = append(*out, path+"(nil-ness)")
			}
			return
		}
		diffPaths(a.Elem(), b.Elem(), path, out)
	case reflect.Struct:
		for i := 0; i < a.NumField(); i++ {
			diffPaths(a.Field(i), b.Field(i), path+"."+a.Type().Field(i).Name, out)
		}
	default:
		if !reflect.DeepEqual(a.Interface(), b.Interface()) {
			*out = append(*out, path)
		}
	}
}

// ---------------------------------------------------------------------------------------------------------

var (
	connTypes = []string{"GET", "POST", "", "PUT"}
	apiIfaces = []string{"jsonrpc", "rest", "grpc", "tendermintrpc"}
	urls      = []string{"", "/cosmos/tx/v1beta1/txs", "/blocks/latest", "lavanet.lava.spec.Query/ShowAllChains"}
	datas     = []string{"", `{"jsonrpc":"2.0","id":1,"method":"eth_blockNumber","params":[]}`, `{"jsonrpc":"2.0","id":7,"method":"eth_getBalance","params":["0xabc","latest"]}`, "\x0a\x04test\x10\x01"}
)

func genRelayData(rng *rand.Rand) *pairingtypes.RelayPrivateData {
	var md []pairingtypes.Metadata
	for i, n := 0, rng.Intn(3); i < n; i++ {
		md = append(md, pairingtypes.Metadata{Name: string(rbytes(rng, 1, 8)), Value: string(rbytes(rng, 0, 8))})
	}
	var ext []string
	for i, n := 0, rng.Intn(3); i < n; i++ {
		ext = append(ext, vrand.Pick(rng, []string{"archive", "debug", "ws"}))
	}
	blocks := []int64{-1, -2, -3, -4, -5, 0, 1, 17_000_000, int64(rng.Uint64() >> 1)}
	ctx := utils.WithUniqueIdentifier(context.Background(), rng.Uint64()|1)
	if rng.Intn(2) == 0 {
		ctx = utils.WithRequestId(ctx, string(rbytes(rng, 1, 8)))
	}
	if rng.Intn(2) == 0 {
		ctx = utils.WithTaskId(ctx, string(rbytes(rng, 1, 8)))
	}
	if rng.Intn(2) == 0 {
		ctx = utils.WithTxId(ctx, string(rbytes(rng, 1, 8)))
	}
	pick := func(xs []string) string {
		if rng.Intn(4) == 0 {
			return string(rbytes(rng, 0, 10))
		}
		return vrand.Pick(rng, xs)
	}
	return lavaprotocol.NewRelayData(ctx, pick(connTypes), pick(urls), []byte(pick(datas)), vrand.Pick(rng, blocks), vrand.Pick(rng, blocks), pick(apiIfaces), md, pick([]string{"", "debug", "trace"}), ext)
}

type caseWitness struct {
	Seed    int64    `json:"seed"`
	Case    int      `json:"case"`
	Path    string   `json:"path,omitempty"`
	How     string   `json:"how,omitempty"`
	Signed  string   `json:"signed_object_proto_hex,omitempty"`
	Checked string   `json:"checked_object_proto_hex,omitempty"`
	Reply   string   `json:"reply_proto_hex,omitempty"`
	Reply2  string   `json:"checked_reply_proto_hex,omitempty"`
	Signer  string   `json:"expected_signer,omitempty"`
	Got     string   `json:"got,omitempty"`
	Diff    []string `json:"diff,omitempty"`
	Text    string   `json:"text,omitempty"`
}

// concurrent phase: every concEvery-th case, concGoroutines goroutines x concIters verifications on one request object
const (
	concEvery      = 5
	concGoroutines = 8
	concIters      = 40
)

func TestC25(t *testing.T) {
	zerolog.SetGlobalLevel(zerolog.Disabled)
	run := ev.Start("C25")
	n := run.Pick(500, 20000)
	const specID, lavaChainID = "LAV1", "lava-verif"

	// statement: signed = everything except Badge and Sig
	sessionExempt := map[string]bool{"Badge": true, "Sig": true}
	sessionFieldHit := map[string]int{} // signed top-level field -> mutations that were rejected
	replyMustReject := map[string]int{} // Reply.Data, Reply.Metadata, Request.RelayData.<field != Salt>
	replyMustAccept := map[string]int{} // Request.RelayData.Salt, unsigned reply fields, Request.RelaySession
	unhandledAll := map[string]bool{}
	untouchedSessions, untouchedReplies, badgeAccepted, mutationChecks := 0, 0, 0, 0
	concurrentVerifications := 0

	topField := func(path string) string { // "RelaySession.QosReport.Latency" -> "QosReport"
		p := strings.SplitN(path, ".", 3)
		if len(p) < 2 {
			return path
		}
		return strings.TrimRight(strings.SplitN(p[1], "[", 2)[0], "]")
	}
	ctx := context.Background()

	// recover wraps the verification under test with the "does not modify what it checks" monitor
	// (the checked object is first put into its wire normal form — nil instead of empty lists — so that before and
	// after are compared like with like)
	recoverSession := func(i int, s *pairingtypes.RelaySession, what string) (sdk.AccAddress, error) {
		s = cloneSession(s)
		before, beforeBytes := cloneSession(s), mustMarshal(s)
		addr, err := sigs.ExtractSignerAddress(s)
		mutationChecks++
		if !reflect.DeepEqual(before, s) || !bytes.Equal(beforeBytes, mustMarshal(s)) {
			var d []string
			diffPaths(reflect.ValueOf(before), reflect.ValueOf(s), "RelaySession", &d)
			run.Violation("verification-mutates-input", "ExtractSignerAddress: "+strings.Join(d, ","), "sigs.ExtractSignerAddress changed the relay session it checked ("+what+")",
				caseWitness{Seed: run.Seed, Case: i, Signed: hex.EncodeToString(beforeBytes), Checked: hex.EncodeToString(mustMarshal(s)), Diff: d})
		}
		return addr, err
	}
	verifyReply := func(i int, reply *pairingtypes.RelayReply, req *pairingtypes.RelayRequest, addr string, what string) error {
		req, reply = cloneRequest(req), cloneReply(reply)
		bReq, bReqBytes := cloneRequest(req), mustMarshal(req)
		bRep, bRepBytes := cloneReply(reply), mustMarshal(reply)
		err := lavaprotocol.VerifyRelayReply(ctx, reply, req, addr)
		mutationChecks++
		if !reflect.DeepEqual(bReq, req) || !bytes.Equal(bReqBytes, mustMarshal(req)) || !reflect.DeepEqual(bRep, reply) || !bytes.Equal(bRepBytes, mustMarshal(reply)) {
			var d []string
			diffPaths(reflect.ValueOf(bReq), reflect.ValueOf(req), "Request", &d)
			diffPaths(reflect.ValueOf(bRep), reflect.ValueOf(reply), "Reply", &d)
			run.Violation("verification-mutates-input", "VerifyRelayReply: "+strings.Join(d, ","),
				fmt.Sprintf("lavaprotocol.VerifyRelayReply changed the objects it checked: %s differ before vs after (%s); e.g. request salt before=%x after=%x", strings.Join(d, ","), what, bReq.RelayData.GetSalt(), req.RelayData.GetSalt()),
				caseWitness{Seed: run.Seed, Case: i, Signed: hex.EncodeToString(bReqBytes), Checked: hex.EncodeToString(mustMarshal(req)), Reply: hex.EncodeToString(bRepBytes), Reply2: hex.EncodeToString(mustMarshal(reply)), Diff: d})
		}
		return err
	}

	for i := 0; i < n && run.Violations() < 40; i++ {
		rng := vrand.Sub(run.Seed, "c25", i)
		consumer := sigs.GenerateDeterministicFloatingKey(rng)
		provider := sigs.GenerateDeterministicFloatingKey(rng)

		// ---- consumer side: real request construction (QoS reports come from the real QoS manager)
		relayData := genRelayData(rng)
		epoch := int64(20 * (1 + rng.Intn(1000)))
		cs := &lavasession.SingleConsumerSession{CuSum: uint64(rng.Intn(100000)), LatestRelayCu: uint64(1 + rng.Intn(100)), SessionId: int64(rng.Uint64() >> 1), RelayNum: uint64(1 + rng.Intn(500)), QoSManager: qos.NewQoSManager()}
		if rng.Intn(4) != 0 {
			for k, m := 0, 1+rng.Intn(3); k < m; k++ {
				cs.QoSManager.CalculateQoS(uint64(epoch), cs.SessionId, provider.Addr.String(), time.Duration(1+rng.Intn(900))*time.Millisecond, time.Duration(100+rng.Intn(900))*time.Millisecond, int64(rng.Intn(5)), 1+rng.Intn(5), int64(1+rng.Intn(3)))
			}
		}
		if rng.Intn(3) != 0 {
			cs.QoSManager.SetLastReputationQoSReport(uint64(epoch), cs.SessionId, &pairingtypes.QualityOfServiceReport{Latency: rdec(rng), Availability: rdec(rng), Sync: rdec(rng)})
		}
		var reported []*pairingtypes.ReportedProvider
		for k, m := 0, rng.Intn(4); k < m; k++ {
			reported = append(reported, &pairingtypes.ReportedProvider{Address: string(rbytes(rng, 1, 20)), Disconnections: uint64(rng.Intn(5)), Errors: uint64(rng.Intn(5)), TimestampS: int64(rng.Intn(1 << 30))})
		}
		request, err := lavaprotocol.ConstructRelayRequest(ctx, consumer.SK, lavaChainID, specID, relayData, provider.Addr.String(), cs, epoch, reported)
		if err != nil {
			t.Fatalf("ConstructRelayRequest: %v", err)
		}
		if rng.Intn(3) == 0 { // a badge travels with the session but is not covered by the consumer signature
			request.RelaySession.Badge = &pairingtypes.Badge{CuAllocation: uint64(rng.Intn(1000)), Epoch: uint64(epoch), Address: string(rbytes(rng, 1, 20)), LavaChainId: lavaChainID, ProjectSig: rbytes(rng, 1, 65), VirtualEpoch: uint64(rng.Intn(3))}
		}
		signedSession := cloneSession(request.RelaySession) // as it arrives over the wire
		signedBytes := mustMarshal(signedSession)

		// ---- (1) untouched session recovers to the consumer
		addr, err := recoverSession(i, cloneSession(signedSession), "untouched session")
		run.Eval(1)
		if err != nil || !addr.Equals(consumer.Addr) {
			run.Violation("untouched-session-not-recovered", "RelaySession", fmt.Sprintf("recovered %v err %v, signer %v", addr, err, consumer.Addr), caseWitness{Seed: run.Seed, Case: i, Signed: hex.EncodeToString(signedBytes), Signer: consumer.Addr.String()})
			continue
		}
		untouchedSessions++

		// ---- (2) every single-field mutation of the session
		slots, unh := slotsOf(cloneSession(signedSession), "RelaySession", run.Seed, "c25-session-walk", i)
		for k := range unh {
			unhandledAll[k] = true
		}
		for k := range slots {
			m := cloneSession(signedSession)
			ms, _ := slotsOf(m, "RelaySession", run.Seed, "c25-session-walk", i)
			s := ms[k]
			field := topField(s.Path)
			if field == "Sig" {
				continue // the signature itself is not a signed field
			}
			s.apply()
			mb := mustMarshal(m)
			if bytes.Equal(mb, signedBytes) {
				continue // not a change
			}
			addr, err := recoverSession(i, m, s.Path+" "+s.How)
			run.Eval(1)
			recovered := err == nil && addr.Equals(consumer.Addr)
			w := caseWitness{Seed: run.Seed, Case: i, Path: s.Path, How: s.How, Signed: hex.EncodeToString(signedBytes), Checked: hex.EncodeToString(mb), Signer: consumer.Addr.String(), Got: fmt.Sprintf("%v err=%v", addr, err), Text: fmt.Sprintf("signed{%s} checked{%s}", signedSession.String(), m.String())}
			if sessionExempt[field] {
				if !recovered {
					run.Violation("session-rejected-after-unsigned-field-change", s.Path, "a change of the badge (not a signed field) stopped the session from recovering to the consumer", w)
				} else {
					badgeAccepted++
					run.Nontrivial("badge|" + hex.EncodeToString(sigs.HashMsg(append(signedBytes, mb...))))
				}
				continue
			}
			if recovered {
				run.Violation("session-recovers-after-signed-field-change", s.Path, fmt.Sprintf("relay session still recovers to the consumer after %s of %s", s.How, s.Path), w)
				continue
			}
			sessionFieldHit[field]++
			run.Nontrivial("session|" + s.Path + "|" + hex.EncodeToString(sigs.HashMsg(append(append([]byte{}, signedBytes...), mb...))))
		}

		// ---- provider side: real reply signing on the provider's own copy of the request
		reply := &pairingtypes.RelayReply{Data: rbytes(rng, 0, 60), LatestBlock: int64(rng.Intn(1 << 30)), FinalizedBlocksHashes: rbytes(rng, 0, 30), SigBlocks: rbytes(rng, 0, 65)}
		for k, m := 0, rng.Intn(4); k < m; k++ {
			reply.Metadata = append(reply.Metadata, pairingtypes.Metadata{Name: string(rbytes(rng, 1, 10)), Value: string(rbytes(rng, 1, 10))})
		}
		providerReq := cloneRequest(request)
		if _, err := lavaprotocol.SignRelayResponse(consumer.Addr, *providerReq, provider.SK, reply); err != nil {
			t.Fatalf("SignRelayResponse: %v", err)
		}
		signedReply := cloneReply(reply) // over the wire
		// consumer side, as rpcconsumer does before verifying: resolve an arbitrary requested block with the reply's latest
		consumerReq := cloneRequest(request)
		lavaprotocol.UpdateRequestedBlock(consumerReq.RelayData, signedReply)
		reqBytes, repBytes := mustMarshal(consumerReq), mustMarshal(signedReply)

		// ---- (3) untouched reply verifies
		run.Eval(1)
		if err := verifyReply(i, cloneReply(signedReply), cloneRequest(consumerReq), provider.Addr.String(), "untouched reply"); err != nil {
			run.Violation("untouched-reply-rejected", "VerifyRelayReply", err.Error(), caseWitness{Seed: run.Seed, Case: i, Signed: hex.EncodeToString(reqBytes), Reply: hex.EncodeToString(repBytes), Signer: provider.Addr.String()})
			continue
		}
		untouchedReplies++

		// ---- (3b) the same request OBJECT checked by several goroutines at once (a consumer verifies the replies of
		// several providers to one request concurrently): every verification must succeed and the request must come
		// out unchanged, whatever the interleaving
		if i%concEvery == 0 {
			sharedReq := cloneRequest(consumerReq)
			before := mustMarshal(sharedReq)
			var wg sync.WaitGroup
			var failed, calls atomic.Int64
			var firstErr atomic.Value
			for g := 0; g < concGoroutines; g++ {
				wg.Add(1)
				go func() {
					defer wg.Done()
					for k := 0; k < concIters; k++ {
						calls.Add(1)
						if err := lavaprotocol.VerifyRelayReply(ctx, cloneReply(signedReply), sharedReq, provider.Addr.String()); err != nil {
							failed.Add(1)
							firstErr.CompareAndSwap(nil, err.Error())
						}
					}
				}()
			}
			wg.Wait()
			run.Eval(1)
			concurrentVerifications += int(calls.Load())
			w := caseWitness{Seed: run.Seed, Case: i, Signed: hex.EncodeToString(reqBytes), Reply: hex.EncodeToString(repBytes), Signer: provider.Addr.String()}
			if n := failed.Load(); n > 0 {
				run.Violation("untouched-reply-rejected", "VerifyRelayReply: concurrent verifications sharing one request object",
					fmt.Sprintf("%d of %d concurrent verifications of a validly signed reply failed (%d goroutines share the request object): %v", n, calls.Load(), concGoroutines, firstErr.Load()), w)
			}
			if after := mustMarshal(sharedReq); !bytes.Equal(before, after) {
				run.Violation("verification-mutates-input", "VerifyRelayReply: concurrent verifications sharing one request object",
					fmt.Sprintf("the request object differs after %d concurrent verifications (salt before=%x after=%x)", calls.Load(), consumerReq.RelayData.GetSalt(), sharedReq.RelayData.GetSalt()), w)
			} else if failed.Load() == 0 {
				run.Nontrivial(fmt.Sprintf("concurrent-verify|%d", i))
			}
		}

		// ---- (4) single-field mutations of reply and of request
		check := func(path, how string, mreq *pairingtypes.RelayRequest, mrep *pairingtypes.RelayReply, mustReject bool, class string) {
			mqb, mpb := mustMarshal(mreq), mustMarshal(mrep)
			if bytes.Equal(mqb, reqBytes) && bytes.Equal(mpb, repBytes) {
				return
			}
			err := verifyReply(i, mrep, mreq, provider.Addr.String(), path+" "+how)
			run.Eval(1)
			w := caseWitness{Seed: run.Seed, Case: i, Path: path, How: how, Signed: hex.EncodeToString(reqBytes), Checked: hex.EncodeToString(mqb), Reply: hex.EncodeToString(repBytes), Reply2: hex.EncodeToString(mpb), Signer: provider.Addr.String(), Got: fmt.Sprint(err)}
			key := hex.EncodeToString(sigs.HashMsg(bytes.Join([][]byte{reqBytes, repBytes, mqb, mpb}, nil)))
			if mustReject {
				if err == nil {
					var d []string
					diffPaths(reflect.ValueOf(consumerReq), reflect.ValueOf(mreq), "Request", &d)
					diffPaths(reflect.ValueOf(signedReply), reflect.ValueOf(mrep), "Reply", &d)
					w.Diff = d
					w.Text = fmt.Sprintf("signed reply{%s} request-data{%s} -> checked reply{%s} request-data{%s}", signedReply.String(), consumerReq.RelayData.String(), mrep.String(), mreq.RelayData.String())
					run.Violation("reply-accepted-after-signed-part-change", path, fmt.Sprintf("VerifyRelayReply accepted a reply/request pair that differs from the signed one in %s (%s); e.g. reply metadata %v -> %v, reply data %q -> %q, request connection type %q -> %q", strings.Join(d, ","), how, signedReply.Metadata, mrep.Metadata, clip(string(signedReply.Data)), clip(string(mrep.Data)), consumerReq.RelayData.ConnectionType, mreq.RelayData.ConnectionType), w)
					return
				}
				replyMustReject[class]++
				run.Nontrivial("reply-reject|" + path + "|" + key)
				return
			}
			if err != nil {
				run.Violation("reply-rejected-although-signed-parts-unchanged", path, fmt.Sprintf("VerifyRelayReply rejected although only %s changed (%s): %v", path, how, err), w)
				return
			}
			replyMustAccept[class]++
			run.Nontrivial("reply-accept|" + path + "|" + key)
		}
		rslots, unh2 := slotsOf(cloneReply(signedReply), "Reply", run.Seed, "c25-reply-walk", i)
		for k := range unh2 {
			unhandledAll[k] = true
		}
		for k := range rslots {
			m := cloneReply(signedReply)
			ms, _ := slotsOf(m, "Reply", run.Seed, "c25-reply-walk", i)
			s := ms[k]
			f := topField(s.Path)
			if f == "Sig" {
				continue
			}
			s.apply()
			check(s.Path, s.How, cloneRequest(consumerReq), m, f == "Data" || f == "Metadata", "Reply."+f)
		}
		qslots, unh3 := slotsOf(cloneRequest(consumerReq), "Request", run.Seed, "c25-request-walk", i)
		for k := range unh3 {
			unhandledAll[k] = true
		}
		for k := range qslots {
			m := cloneRequest(consumerReq)
			ms, _ := slotsOf(m, "Request", run.Seed, "c25-request-walk", i)
			s := ms[k]
			parts := strings.Split(s.Path, ".")
			if m.RelayData == nil || m.RelaySession == nil {
				t.Fatalf("harness: nil request parts")
			}
			s.apply()
			if m.RelayData == nil || m.RelaySession == nil {
				continue // dropping a whole sub-message is not a field mutation of it (VerifyRelayReply dereferences RelayData)
			}
			switch {
			case parts[1] == "RelaySession":
				check(s.Path, s.How, m, cloneReply(signedReply), false, "Request.RelaySession")
			case len(parts) > 2 && strings.HasPrefix(parts[2], "Salt"):
				check(s.Path, s.How, m, cloneReply(signedReply), false, "Request.RelayData.Salt")
			case len(parts) > 2:
				check(s.Path, s.How, m, cloneReply(signedReply), true, "Request.RelayData."+strings.SplitN(parts[2], "[", 2)[0])
			}
		}

		// ---- (5) re-framing mutations: the signed parts change, the signed byte string might not
		{
			m := cloneReply(signedReply)
			pos := rng.Intn(len(m.Metadata) + 1)
			md := append([]pairingtypes.Metadata{}, m.Metadata[:pos]...)
			md = append(md, pairingtypes.Metadata{})
			m.Metadata = append(md, m.Metadata[pos:]...)
			check("Reply.Metadata:insert-empty-entry", fmt.Sprintf("empty metadata entry inserted at %d", pos), cloneRequest(consumerReq), m, true, "Reply.Metadata(reframed)")
		}
		if len(signedReply.Metadata) > 0 {
			m := cloneReply(signedReply)
			j := rng.Intn(len(m.Metadata))
			e := m.Metadata[j]
			md := append([]pairingtypes.Metadata{}, m.Metadata[:j]...)
			md = append(md, pairingtypes.Metadata{Name: e.Name}, pairingtypes.Metadata{Value: e.Value})
			m.Metadata = append(md, m.Metadata[j+1:]...)
			check("Reply.Metadata:split-entry", fmt.Sprintf("entry %d {name,value} split into {name,\"\"},{\"\",value}", j), cloneRequest(consumerReq), m, true, "Reply.Metadata(reframed)")
		}
		if len(signedReply.Metadata) > 0 {
			// the name / value boundary of one entry moves by one byte (the concatenation name+value stays the same)
			m := cloneReply(signedReply)
			j := rng.Intn(len(m.Metadata))
			e := m.Metadata[j]
			moved := false
			if len(e.Name) > 1 && rng.Intn(2) == 0 {
				m.Metadata[j] = pairingtypes.Metadata{Name: e.Name[:len(e.Name)-1], Value: e.Name[len(e.Name)-1:] + e.Value}
				moved = true
			} else if len(e.Value) > 0 {
				m.Metadata[j] = pairingtypes.Metadata{Name: e.Name + e.Value[:1], Value: e.Value[1:]}
				moved = true
			}
			if moved {
				check("Reply.Metadata:shift-name-value-boundary", fmt.Sprintf("entry %d %q|%q -> %q|%q", j, e.Name, e.Value, m.Metadata[j].Name, m.Metadata[j].Value), cloneRequest(consumerReq), m, true, "Reply.Metadata(reframed)")
			}
		}
		if len(signedReply.Metadata) > 1 {
			// two neighbouring entries merged into one: the first value absorbs the second entry's name and value
			m := cloneReply(signedReply)
			j := rng.Intn(len(m.Metadata) - 1)
			a, b := m.Metadata[j], m.Metadata[j+1]
			md := append([]pairingtypes.Metadata{}, m.Metadata[:j]...)
			md = append(md, pairingtypes.Metadata{Name: a.Name, Value: a.Value + b.Name + b.Value})
			m.Metadata = append(md, m.Metadata[j+2:]...)
			check("Reply.Metadata:merge-entries", fmt.Sprintf("entries %d and %d merged into {%q,%q}", j, j+1, a.Name, a.Value+b.Name+b.Value), cloneRequest(consumerReq), m, true, "Reply.Metadata(reframed)")
		}
		if ct := consumerReq.RelayData.ConnectionType; ct != "" {
			// the reply data is followed directly by the text form of the request data: move the request's first
			// text field to the tail of the reply data
			mq, mp := cloneRequest(consumerReq), cloneReply(signedReply)
			withSaltCleared := *mq.RelayData
			withSaltCleared.Salt = nil
			full := withSaltCleared.String()
			mq.RelayData.ConnectionType = ""
			withSaltCleared.ConnectionType = ""
			rest := withSaltCleared.String()
			if strings.HasSuffix(full, rest) {
				mp.Data = append(append([]byte{}, mp.Data...), []byte(full[:len(full)-len(rest)])...)
				check("Reply.Data|Request.RelayData:boundary-shift", "text of the request's connection type moved to the tail of the reply data, connection type cleared", mq, mp, true, "Reply.Data|Request.RelayData(reframed)")
			}
		}
		if i < 2 {
			run.Sample(map[string]any{"case": i, "session": signedSession.String(), "session_slots": len(slots), "reply_slots": len(rslots), "request_slots": len(qslots)})
		}
	}

	// ---- reach requirements: every field of the structs was classified and exercised
	st := reflect.TypeOf(pairingtypes.RelaySession{})
	for f := 0; f < st.NumField(); f++ {
		name := st.Field(f).Name
		if sessionExempt[name] {
			continue
		}
		run.Count("session field bound (mutations rejected): "+name, sessionFieldHit[name])
		run.Require("signed RelaySession field mutated and rejected at least once: "+name, sessionFieldHit[name] > 0)
	}
	dt := reflect.TypeOf(pairingtypes.RelayPrivateData{})
	for f := 0; f < dt.NumField(); f++ {
		name := dt.Field(f).Name
		if name == "Salt" {
			continue
		}
		run.Count("request-data field bound by reply signature: "+name, replyMustReject["Request.RelayData."+name])
		run.Require("request-data field mutated and reply rejected at least once: "+name, replyMustReject["Request.RelayData."+name] > 0)
	}
	for _, c := range []string{"Reply.Data", "Reply.Metadata"} {
		run.Count("reply part bound by reply signature: "+c, replyMustReject[c])
		run.Require("reply part mutated and rejected: "+c, replyMustReject[c] > 0)
	}
	ak := make([]string, 0)
	for k := range replyMustAccept {
		ak = append(ak, k)
	}
	sort.Strings(ak)
	for _, k := range ak {
		run.Count("reply still verified after change of unsigned part: "+k, replyMustAccept[k])
	}
	run.Require("salt-only change verified at least once", replyMustAccept["Request.RelayData.Salt"] > 0)
	uk := make([]string, 0)
	for k := range unhandledAll {
		uk = append(uk, k)
	}
	sort.Strings(uk)
	run.Require("every field kind of the protobuf structs handled by the mutator (unhandled: "+strings.Join(uk, ",")+")", len(uk) == 0)
	run.Count("untouched sessions recovered", untouchedSessions)
	run.Count("untouched replies verified", untouchedReplies)
	run.Count("concurrent verifications on a shared request object", concurrentVerifications)
	run.Count("badge-only changes still recovered", badgeAccepted)
	run.Count("before/after comparisons of checked objects", mutationChecks)
	run.Require("untouched sessions recovered", untouchedSessions > 0)
	run.Require("untouched replies verified", untouchedReplies > 0)
	run.Require("concurrent verifications on a shared request object", concurrentVerifications > 0)
	run.Require("badge-only change exercised", badgeAccepted > 0)
	run.Finish("PRNG relay requests signed by the consumer's ConstructRelayRequest (QoS reports from the real QoS manager, reported providers, optional badge) and replies signed by the provider's SignRelayResponse; every field of RelaySession / RelayReply / RelayRequest found by reflection is mutated on its own (strings, bytes, integers, decimals, nil<->value, list append/remove/duplicate/swap, element fields, oneofs), plus re-framings of the reply metadata and of the reply-data|request-data boundary; sigs.ExtractSignerAddress and lavaprotocol.VerifyRelayReply decide, and every checked object is compared (deep-equal and marshalled bytes) before vs after; a case is non-trivial when the mutated object marshals differently from the signed one, the untouched one verified, and the verdict was the expected one; distinct = distinct (signed, mutated) byte pairs",
		n*20, "secp256k1/SHA-256 forgeries are not expected among generated inputs", "Badge and Sig are not signed fields of the session; the salt is not part of the reply signature (statement)", "mutating Sig itself is not a field mutation the statement speaks about")
}

func clip(s string) string {
	if len(s) > 70 {
		return s[:70] + "…"
	}
	return s
}
