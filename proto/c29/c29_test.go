//go:build verif

// C29 — provider reward server: best proof kept, claimed in window, survives restart.
//
// Runtime monitor. The real RewardServer (real badger reward DB in a temp dir) is driven through
// hook H5 (synchronous epoch update / snapshot / restore, crash points) by 8-32 goroutines sending
// signed proofs in shuffled orders for overlapping sessions, with a mock RewardsTxSender that records
// every claim together with the epoch-clock value and fails scripted transactions. Everything that
// happens is logged as events carrying a logical timestamp; the oracles run over that log.
//
// Process layout: TestC29 (parent) re-executes the test binary as a worker with GORACE log_path
// set, so that race reports can be counted; the worker runs all rounds and, in the thorough tier,
// spawns crash children (TestC29Child) that die at a crash point / by SIGKILL.
package c29

import (
	"bufio"
	"bytes"
	"context"
	"encoding/json"
	"errors"
	"fmt"
	"math/rand"
	"os"
	"os/exec"
	"path/filepath"
	"regexp"
	"runtime"
	"sort"
	"strconv"
	"strings"
	"sync"
	"sync/atomic"
	"syscall"
	"testing"
	"time"

	"github.com/anishathalye/porcupine"
	sdk "github.com/cosmos/cosmos-sdk/types"
	"github.com/lavanet/lava/v5/protocol/rpcprovider/rewardserver"
	"github.com/lavanet/lava/v5/utils"
	lavarand "github.com/lavanet/lava/v5/utils/rand"
	"github.com/lavanet/lava/v5/utils/sigs"
	pairingtypes "github.com/lavanet/lava/v5/x/pairing/types"

	"verif/internal/ev"
	"verif/internal/vrand"
)

const maxSubmissions = 1 + rewardserver.MaxPaymentRequestsRetiresForSession

// ------------------------------------------------------------------ keys, events

type pkey struct {
	Epoch uint64 `json:"e"`
	Cons  int    `json:"c"`
	Spec  string `json:"s"`
	Sess  uint64 `json:"id"`
}

func (k pkey) String() string { return fmt.Sprintf("e%d/c%d/%s/s%d", k.Epoch, k.Cons, k.Spec, k.Sess) }

type proofID struct {
	K  pkey
	Cu uint64
	Rn uint64
}

func (p proofID) String() string { return fmt.Sprintf("%s cu=%d rn=%d", p.K, p.Cu, p.Rn) }

type txItem struct {
	Key   pkey   `json:"key"`
	Cu    uint64 `json:"cu"`
	Rn    uint64 `json:"rn"`
	Known bool   `json:"known"` // signature found in the ledger of proofs the harness sent and all fields equal
}

type dbItem struct {
	Key pkey   `json:"key"`
	Cu  uint64 `json:"cu"`
	Rn  uint64 `json:"rn"`
}

type event struct {
	K     string   `json:"k"` // clock step stepend send sendret claim claimret snap snapret tx restart
	T     int64    `json:"t"`
	ID    int64    `json:"id,omitempty"`
	G     int      `json:"g,omitempty"`
	Key   *pkey    `json:"key,omitempty"`
	Cu    uint64   `json:"cu,omitempty"`
	Rn    uint64   `json:"rn,omitempty"`
	Ex    uint64   `json:"ex,omitempty"`
	Up    bool     `json:"up,omitempty"`
	Clock uint64   `json:"clock,omitempty"`
	Step  int      `json:"step,omitempty"`
	Items []txItem `json:"items,omitempty"`
	Fail  bool     `json:"fail,omitempty"`
	FailK int      `json:"fail_k,omitempty"`
	Sig   []byte   `json:"sig,omitempty"`
	DB    []dbItem `json:"db,omitempty"`
	Note  string   `json:"note,omitempty"`
}

// sink assigns logical timestamps (one total order) and stores / writes events.
type sink struct {
	mu      sync.Mutex
	clk     int64
	events  []event
	f       *os.File
	ops     int
	killAt  int // SIGKILL ourselves when the ops-th send/claim/snap call is logged (children only)
	nextID  int64
	keepSig bool
}

func (s *sink) id() int64 { return atomic.AddInt64(&s.nextID, 1) }

func (s *sink) emit(e event) int64 {
	s.mu.Lock()
	defer s.mu.Unlock()
	s.clk++
	e.T = s.clk
	if s.f != nil {
		b, _ := json.Marshal(e)
		b = append(b, '\n')
		s.f.Write(b)
	}
	if !s.keepSig {
		e.Sig = nil
	}
	s.events = append(s.events, e)
	if s.killAt > 0 && (e.K == "send" || e.K == "claim" || e.K == "snap") {
		s.ops++
		if s.ops == s.killAt {
			syscall.Kill(os.Getpid(), syscall.SIGKILL)
			select {}
		}
	}
	return e.T
}

func (s *sink) take() []event {
	s.mu.Lock()
	defer s.mu.Unlock()
	out := s.events
	s.events = nil
	return out
}

// ------------------------------------------------------------------ world

type world struct {
	Seed     int64    `json:"seed"`
	Round    int      `json:"round"`
	E        uint64   `json:"epoch_blocks"`
	K        uint64   `json:"epochs_to_collect"` // active window = K epochs
	Mm       uint64   `json:"epochs_in_memory"`
	Base     uint64   `json:"first_epoch"`
	Specs    []string `json:"specs"`
	NCons    int      `json:"consumers"`
	Sessions []uint64 `json:"session_ids"`
	G        int      `json:"goroutines"`
	PerG     int      `json:"proofs_per_goroutine_and_step"`
	Small    bool     `json:"small"`
	Steps    int      `json:"steps"`
	accs     []sigs.Account
	addrs    []string
	provider string
}

func newWorld(seed int64, round int) *world {
	rng := vrand.Sub(seed, "c29-world", round)
	w := &world{Seed: seed, Round: round}
	w.E = uint64(5 + rng.Intn(40))
	w.K = uint64(2 + rng.Intn(3))
	w.Mm = w.K + 4 + uint64(rng.Intn(4))
	w.Base = w.E * uint64(1000+rng.Intn(200000))
	w.Specs = []string{"LAV1"}
	if rng.Intn(5) < 2 {
		w.Specs = append(w.Specs, "ETH1")
	}
	w.NCons = 2 + rng.Intn(3)
	// few session ids => equal ids under different consumers, epochs and chains are the norm
	w.Sessions = [][]uint64{{7}, {7, 8}, {1, 2, 3}, {42, 7, 9000000001}}[rng.Intn(4)]
	w.G = 8 + rng.Intn(25)
	w.PerG = 2 + rng.Intn(2)
	w.Steps = 7 + rng.Intn(4)
	// Small worlds: few keys per epoch. Only they get transactions that keep failing until the
	// retries are exhausted: every exhausted proof costs one badger DropPrefix per DB in the real code
	// (a 64 MB memtable each, very slow under the race detector), and a failing tx exhausts every
	// proof that shares the retry table with it.
	w.Small = rng.Intn(5) < 2
	if w.Small {
		w.G = 8 + rng.Intn(3)
		w.PerG = 1
		w.NCons = 2 + rng.Intn(2)
		w.Sessions = [][]uint64{{7}, {7, 8}}[rng.Intn(2)]
	}
	kr := sigs.NewZeroReader(seed*7919 + int64(round))
	for i := 0; i < w.NCons; i++ {
		acc := sigs.GenerateDeterministicFloatingKey(kr)
		w.accs = append(w.accs, acc)
		w.addrs = append(w.addrs, acc.Addr.String())
	}
	w.provider = sdk.AccAddress([]byte("verif-c29-provider--")).String()
	return w
}

func (w *world) dist() uint64 { return w.E * w.K }

func (w *world) earliest(c uint64) uint64 {
	if c > w.E*w.Mm {
		return c - w.E*w.Mm
	}
	return 0
}

// active: the provider still accepts relays of epoch e at clock c (ProviderSessionManager rule)
func (w *world) active(e, c uint64) bool { return c < w.dist() || e > c-w.dist() }

// claimable: epoch e has left the active window and is still in chain memory at clock c
func (w *world) claimable(e, c uint64) bool {
	return c >= w.dist() && e <= c-w.dist() && e >= w.earliest(c)
}

func (w *world) activeEpochs(c uint64) []uint64 {
	var out []uint64
	for i := uint64(0); i < w.K; i++ {
		if c < i*w.E || c-i*w.E < w.Base {
			break
		}
		out = append(out, c-i*w.E)
	}
	return out
}

func (w *world) consIdx(addr string) int {
	for i, a := range w.addrs {
		if a == addr {
			return i
		}
	}
	return -1
}

// ------------------------------------------------------------------ mock tx sender + epoch clock

type mockSender struct {
	w     *world
	sk    *sink
	clock atomic.Uint64

	mu       sync.Mutex
	bySig    map[string]proofID
	failLeft map[proofID]int
	txN      int
	// steer (directed scenarios only): a failing tx reports back once this returns true (bounded wait)
	steer func(items []txItem) bool
	// hold (directed scenarios only): called by every tx before it reports back
	hold    func(items []txItem, fail bool)
	entered atomic.Int64
}

func (m *mockSender) register(id proofID, sig []byte, failK int) {
	m.mu.Lock()
	m.bySig[string(sig)] = id
	if failK > 0 {
		m.failLeft[id] = failK
	}
	m.mu.Unlock()
}

func (m *mockSender) TxRelayPayment(ctx context.Context, relays []*pairingtypes.RelaySession, description string, latestBlocks []*pairingtypes.LatestBlockReport) error {
	items := make([]txItem, 0, len(relays))
	m.mu.Lock()
	fail := false
	var ids []proofID
	for _, r := range relays {
		id, ok := m.bySig[string(r.Sig)]
		it := txItem{Cu: r.CuSum, Rn: r.RelayNum}
		if ok && id.K.Spec == r.SpecId && id.K.Sess == r.SessionId && id.K.Epoch == uint64(r.Epoch) && id.Cu == r.CuSum && id.Rn == r.RelayNum {
			it.Key, it.Known = id.K, true
			ids = append(ids, id)
			if m.failLeft[id] > 0 {
				fail = true
			}
		} else {
			it.Key = pkey{Epoch: uint64(r.Epoch), Cons: -1, Spec: r.SpecId, Sess: r.SessionId}
		}
		items = append(items, it)
	}
	if fail {
		for _, id := range ids {
			if m.failLeft[id] > 0 {
				m.failLeft[id]--
			}
		}
	}
	n := m.txN
	m.txN++
	m.mu.Unlock()
	m.sk.emit(event{K: "tx", Clock: m.clock.Load(), Items: items, Fail: fail})
	m.entered.Add(1)
	if m.hold != nil {
		m.hold(items, fail)
	}
	if fail && m.steer != nil {
		for i := 0; i < 20000 && !m.steer(items); i++ {
			runtime.Gosched()
		}
		return errors.New("scripted tx failure")
	}
	if fail {
		// schedule widening only: a failing tx usually lingers a little, so that a concurrent
		// successful one often (not always) reports back first
		if n%3 != 0 {
			for i := 0; i < 30; i++ {
				runtime.Gosched()
			}
			time.Sleep(60 * time.Microsecond)
		}
		return errors.New("scripted tx failure")
	}
	return nil
}

func (m *mockSender) GetEpochSizeMultipliedByRecommendedEpochNumToCollectPayment(ctx context.Context) (uint64, error) {
	return m.w.dist(), nil
}

func (m *mockSender) EarliestBlockInMemory(ctx context.Context) (uint64, error) {
	return m.w.earliest(m.clock.Load()), nil
}
func (m *mockSender) GetEpochSize(ctx context.Context) (uint64, error) { return m.w.E, nil }

// LatestBlock is far enough into the epoch for the random reward delay to be over at once.
func (m *mockSender) LatestBlock() int64                 { return int64(m.clock.Load() + m.w.E) }
func (m *mockSender) GetAverageBlockTime() time.Duration { return time.Millisecond }

// ------------------------------------------------------------------ driver (one process incarnation after the other)

type planned struct {
	K     pkey
	Cu    uint64
	Rn    uint64
	FailK int
	Qos   bool
}

type driver struct {
	w       *world
	sk      *sink
	mock    *mockSender
	srv     *rewardserver.RewardServer
	rdb     *rewardserver.RewardDB
	dir     string
	lastCu  map[pkey]uint64
	nextRn  map[pkey]uint64
	byEpoch map[uint64][]pkey
	clock   uint64
	prev    uint64
	stepN   int
	ctx     context.Context

	addDBCalls atomic.Int64
}

func newDriver(w *world, sk *sink, dir string) *driver {
	d := &driver{w: w, sk: sk, dir: dir, lastCu: map[pkey]uint64{}, nextRn: map[pkey]uint64{}, byEpoch: map[uint64][]pkey{}, ctx: context.Background()}
	d.mock = &mockSender{w: w, sk: sk, bySig: map[string]proofID{}, failLeft: map[proofID]int{}}
	d.clock = w.Base + w.E*(w.K+1)
	d.prev = d.clock
	d.mock.clock.Store(d.clock)
	return d
}

const hugeThreshold = uint(1) << 40 // RelayNum % threshold never 0: the harness triggers snapshots itself
const hugeTimeoutSec = uint(1) << 30

// startFresh: first incarnation, through the real AddDataBase (opens badger, restores nothing).
func (d *driver) startFresh() {
	d.rdb = rewardserver.NewRewardDBWithTTL(rewardserver.DefaultRewardTTL)
	d.srv = rewardserver.NewRewardServer(d.mock, nil, d.rdb, d.dir, hugeThreshold, hugeTimeoutSec, nil)
	for _, spec := range d.w.Specs {
		d.srv.AddDataBase(spec, d.w.provider, 0)
	}
	d.sk.emit(event{K: "clock", Clock: d.clock})
}

// openDB opens the badger DBs of the directory (real NewLocalDB / AddDB) and reads what is stored.
func (d *driver) openDB() (*rewardserver.RewardDB, []dbItem, error) {
	rdb := rewardserver.NewRewardDBWithTTL(rewardserver.DefaultRewardTTL)
	var items []dbItem
	for _, spec := range d.w.Specs {
		if err := rdb.AddDB(rewardserver.NewLocalDB(d.dir, d.w.provider, spec, 0)); err != nil {
			return nil, nil, err
		}
		ps, err := rdb.VerifProofsInDB(spec)
		if err != nil {
			return nil, nil, err
		}
		for _, p := range ps {
			items = append(items, dbItem{Key: pkey{Epoch: p.Epoch, Cons: d.w.consIdx(p.ConsumerAddr), Spec: p.SpecId, Sess: p.SessionId}, Cu: p.CuSum, Rn: p.RelayNum})
		}
	}
	sort.Slice(items, func(i, j int) bool { return items[i].Key.String() < items[j].Key.String() })
	return rdb, items, nil
}

// restartFrom: a new server over the DB directory; restore through the real restoreRewardsFromDB.
func (d *driver) restartFrom(rdb *rewardserver.RewardDB, db []dbItem) (notRestored []dbItem) {
	d.rdb = rdb
	d.srv = rewardserver.NewRewardServer(d.mock, nil, d.rdb, d.dir, hugeThreshold, hugeTimeoutSec, nil)
	for _, spec := range d.w.Specs {
		d.srv.VerifRestoreFromDB(spec)
	}
	pend := map[pkey]uint64{}
	for _, p := range d.srv.VerifPendingProofs() {
		pend[pkey{Epoch: p.Epoch, Cons: d.w.consIdx(p.ConsumerAddr), Spec: p.SpecId, Sess: p.SessionId}] = p.CuSum
	}
	for _, it := range db {
		if it.Key.Epoch >= d.w.earliest(d.clock) {
			if cu, ok := pend[it.Key]; !ok || cu != it.Cu {
				notRestored = append(notRestored, it)
			}
		}
	}
	return notRestored
}

func (d *driver) buildProof(p planned) *pairingtypes.RelaySession {
	rs := &pairingtypes.RelaySession{
		SpecId:      p.K.Spec,
		ContentHash: []byte{byte(p.Rn), byte(p.Cu)},
		SessionId:   p.K.Sess,
		CuSum:       p.Cu,
		Provider:    d.w.provider,
		RelayNum:    p.Rn,
		Epoch:       int64(p.K.Epoch),
		LavaChainId: "lava",
	}
	if p.Qos {
		rs.QosReport = &pairingtypes.QualityOfServiceReport{Latency: sdk.OneDec(), Availability: sdk.NewDecWithPrec(95, 2), Sync: sdk.OneDec()}
	}
	sig, err := sigs.Sign(d.w.accs[p.K.Cons].SK, *rs)
	if err != nil {
		panic(err)
	}
	rs.Sig = sig
	return rs
}

func (d *driver) planKey(rng *rand.Rand, epoch uint64) pkey {
	// mostly re-use keys that already exist for the epoch (overlapping sessions), sometimes a new one
	if ks := d.byEpoch[epoch]; len(ks) > 0 && rng.Intn(100) < 70 {
		return ks[rng.Intn(len(ks))]
	}
	k := pkey{Epoch: epoch, Cons: rng.Intn(d.w.NCons), Spec: vrand.Pick(rng, d.w.Specs), Sess: vrand.Pick(rng, d.w.Sessions)}
	if _, seen := d.nextRn[k]; !seen {
		d.nextRn[k] = 1
		d.byEpoch[epoch] = append(d.byEpoch[epoch], k)
	}
	return k
}

func (d *driver) planProofs(rng *rand.Rand, k pkey, n int, out *[]planned, allowLower bool) {
	for b := 0; b < n; b++ {
		last := d.lastCu[k]
		cu := last + 1 + uint64(rng.Intn(25))
		if last > 0 && rng.Intn(7) == 0 {
			cu = last // equal-CU duplicate (different relay number, different signature)
		} else if allowLower && last > 2 && rng.Intn(2) == 0 {
			cu = 1 + uint64(rng.Intn(int(last-1)))
		}
		if cu > last {
			d.lastCu[k] = cu
		}
		p := planned{K: k, Cu: cu, Rn: d.nextRn[k], Qos: rng.Intn(2) == 0}
		d.nextRn[k]++
		if r := rng.Intn(100); r < 10 {
			p.FailK = 1 + rng.Intn(2)
		} else if r < 13 && d.w.Small {
			p.FailK = []int{3, 6, 12}[rng.Intn(3)]
		}
		*out = append(*out, p)
	}
}

type stepOpts struct {
	scripted  []planned // when set, exactly these proofs are sent (directed scenario)
	advance   int
	sends     bool
	claims    int // 0, 1, or 2 (second one = the delayed update of the previous epoch)
	snapshots int
	addDBs    int // AddDataBase calls for chains that are already served (another endpoint of the chain comes up / is retried)
}

// step: advance the epoch clock, then run senders, epoch updates and snapshots concurrently; join.
func (d *driver) step(rng *rand.Rand, o stepOpts) {
	d.stepN++
	if o.advance > 0 {
		d.prev = d.clock
		d.clock += uint64(o.advance) * d.w.E
		d.mock.clock.Store(d.clock)
		d.sk.emit(event{K: "clock", Clock: d.clock})
	}
	all := o.scripted
	if o.sends && o.scripted == nil {
		act := d.w.activeEpochs(d.clock)
		target := d.w.G * d.w.PerG
		for len(all) < target && len(act) > 0 {
			e := act[0]
			if rng.Intn(3) == 0 {
				e = act[rng.Intn(len(act))]
			}
			d.planProofs(rng, d.planKey(rng, e), 1+rng.Intn(4), &all, false)
		}
		// stragglers: relays that were in flight when their epoch left the window
		if o.advance > 0 && rng.Intn(100) < 35 {
			for _, e := range d.w.activeEpochs(d.prev) {
				if !d.w.active(e, d.clock) {
					for i, n := 0, 1+rng.Intn(3); i < n; i++ {
						d.planProofs(rng, d.planKey(rng, e), 1, &all, true)
					}
				}
			}
		}
		rng.Shuffle(len(all), func(i, j int) { all[i], all[j] = all[j], all[i] })
	}
	d.sk.emit(event{K: "step", Step: d.stepN, Clock: d.clock})
	plans := make([][]planned, d.w.G)
	for i, p := range all {
		plans[i%d.w.G] = append(plans[i%d.w.G], p)
	}
	var done atomic.Int64
	var sendersDone atomic.Bool
	total := int64(len(all))
	var wg, swg sync.WaitGroup
	for g := 0; g < d.w.G; g++ {
		if len(plans[g]) == 0 {
			continue
		}
		wg.Add(1)
		swg.Add(1)
		go func(g int, plan []planned) {
			defer wg.Done()
			defer swg.Done()
			for _, p := range plan {
				rs := d.buildProof(p)
				id := proofID{p.K, p.Cu, p.Rn}
				d.mock.register(id, rs.Sig, p.FailK)
				opID := d.sk.id()
				k := p.K
				d.sk.emit(event{K: "send", ID: opID, G: g, Key: &k, Cu: p.Cu, Rn: p.Rn, FailK: p.FailK, Sig: rs.Sig})
				ex, up := d.srv.SendNewProof(d.ctx, rs, p.K.Epoch, d.w.addrs[p.K.Cons], "jsonrpc")
				d.sk.emit(event{K: "sendret", ID: opID, Ex: ex, Up: up})
				done.Add(1)
			}
		}(g, plans[g])
	}
	go func() { swg.Wait(); sendersDone.Store(true) }()
	after := func(n int64) {
		for done.Load() < n && !sendersDone.Load() {
			runtime.Gosched()
		}
	}
	for c := 0; c < o.claims; c++ {
		epoch := d.clock
		if c == 1 {
			epoch = d.prev
		}
		startAt := int64(0)
		if total > 0 {
			startAt = rng.Int63n(total + 1)
		}
		wg.Add(1)
		go func(epoch uint64, startAt int64) {
			defer wg.Done()
			after(startAt)
			opID := d.sk.id()
			d.sk.emit(event{K: "claim", ID: opID, Clock: epoch})
			d.srv.VerifEpochUpdateNow(epoch)
			d.sk.emit(event{K: "claimret", ID: opID})
		}(epoch, startAt)
	}
	for s := 0; s < o.snapshots; s++ {
		startAt := int64(0)
		if total > 0 {
			startAt = rng.Int63n(total + 1)
		}
		wg.Add(1)
		go func(startAt int64) {
			defer wg.Done()
			after(startAt)
			opID := d.sk.id()
			d.sk.emit(event{K: "snap", ID: opID})
			d.srv.VerifSnapshotNow()
			d.sk.emit(event{K: "snapret", ID: opID})
		}(startAt)
	}
	for a := 0; a < o.addDBs; a++ {
		startAt := int64(0)
		if total > 0 {
			startAt = rng.Int63n(total + 1)
		}
		spec := vrand.Pick(rng, d.w.Specs)
		wg.Add(1)
		go func(startAt int64, spec string) {
			defer wg.Done()
			after(startAt)
			// SetupEndpoint calls this once per (chain, api interface) and again when a disabled endpoint is retried:
			// for a chain whose reward DB is already open it must not touch the proofs held in memory
			d.srv.AddDataBase(spec, d.w.provider, 0)
			d.addDBCalls.Add(1)
		}(startAt, spec)
	}
	wg.Wait()
	d.sk.emit(event{K: "stepend", Step: d.stepN, Clock: d.clock})
}

func (d *driver) randomStep(rng *rand.Rand, sends bool) {
	o := stepOpts{advance: 1, sends: sends, claims: 1}
	if rng.Intn(10) == 0 {
		o.advance = 2
	}
	switch r := rng.Intn(100); {
	case r < 8:
		o.claims = 0
	case r < 35:
		o.claims = 2
	}
	o.snapshots = vrand.Weighted(rng, []int{35, 45, 20})
	o.addDBs = vrand.Weighted(rng, []int{70, 24, 6})
	d.step(rng, o)
}

// ------------------------------------------------------------------ recorder (worker -> parent)

type violationRec struct {
	Rule    string `json:"rule"`
	Sig     string `json:"sig"`
	Desc    string `json:"desc"`
	Witness any    `json:"witness"`
}

type recorder struct {
	Evals        int            `json:"evals"`
	Nontrivial   []string       `json:"nontrivial"`
	Samples      []any          `json:"samples"`
	Counters     map[string]int `json:"counters"`
	Violations   []violationRec `json:"violations"`
	Inconclusive []string       `json:"inconclusive"`
	seenViol     map[string]int
}

func (r *recorder) count(k string, n int) { r.Counters[k] += n }

func (r *recorder) violation(rule, sig, desc string, witness any) {
	key := rule + "|" + sig
	r.seenViol[key]++
	if r.seenViol[key] > 1 {
		r.count("violation_repeats:"+key, 1)
		return
	}
	r.Violations = append(r.Violations, violationRec{rule, sig, desc, witness})
}

// ------------------------------------------------------------------ evaluation of one round

type sendOp struct {
	key    pkey
	cu, rn uint64
	tcall  int64
	tret   int64
	ex     uint64
	up     bool
	failK  int
}
type claimOp struct {
	epoch       uint64
	tcall, tret int64
}
type txOp struct {
	t     int64
	clock uint64
	items []txItem
	fail  bool
}
type snapOp struct{ tcall, tret int64 }
type stepRec struct {
	n            int
	clock        uint64
	tbegin, tend int64
}

type lifetimeRec struct {
	idx      int
	events   []event
	restored map[pkey]dbItem // DB entries found at start whose epoch was still in chain memory (obligations)
	dbAll    []dbItem
	crashed  bool
	how      string
	clock0   uint64

	sends  []*sendOp
	byKey  map[pkey][]*sendOp
	claims []*claimOp
	txs    []*txOp
	snaps  []*snapOp
	steps  []*stepRec
}

func (lt *lifetimeRec) parse() {
	lt.byKey = map[pkey][]*sendOp{}
	sid := map[int64]*sendOp{}
	cid := map[int64]*claimOp{}
	pid := map[int64]*snapOp{}
	var cur *stepRec
	for _, e := range lt.events {
		switch e.K {
		case "send":
			s := &sendOp{key: *e.Key, cu: e.Cu, rn: e.Rn, tcall: e.T, failK: e.FailK}
			sid[e.ID] = s
			lt.sends = append(lt.sends, s)
			lt.byKey[s.key] = append(lt.byKey[s.key], s)
		case "sendret":
			if s := sid[e.ID]; s != nil {
				s.tret, s.ex, s.up = e.T, e.Ex, e.Up
			}
		case "claim":
			c := &claimOp{epoch: e.Clock, tcall: e.T}
			cid[e.ID] = c
			lt.claims = append(lt.claims, c)
		case "claimret":
			if c := cid[e.ID]; c != nil {
				c.tret = e.T
			}
		case "snap":
			s := &snapOp{tcall: e.T}
			pid[e.ID] = s
			lt.snaps = append(lt.snaps, s)
		case "snapret":
			if s := pid[e.ID]; s != nil {
				s.tret = e.T
			}
		case "tx":
			lt.txs = append(lt.txs, &txOp{t: e.T, clock: e.Clock, items: e.Items, fail: e.Fail})
		case "step":
			cur = &stepRec{n: e.Step, clock: e.Clock, tbegin: e.T}
			lt.steps = append(lt.steps, cur)
		case "stepend":
			if cur != nil && cur.n == e.Step {
				cur.tend = e.T
			}
		}
	}
}

type roundRec struct {
	w             *world
	lts           []*lifetimeRec
	submittedEver map[pkey]bool
	snapEvidence  map[pkey]uint64 // K -> highest CuSum known to have been snapshotted while unclaimed
	rec           *recorder
	classes       map[string]int
}

func (rr *roundRec) witness(lt *lifetimeRec, keys ...pkey) any {
	want := map[pkey]bool{}
	sess := map[uint64]bool{}
	for _, k := range keys {
		want[k] = true
		sess[k.Sess] = true
	}
	var evs []event
	sendKey := map[int64]bool{}
	for _, e := range lt.events {
		switch e.K {
		case "send":
			if want[*e.Key] {
				sendKey[e.ID] = true
				evs = append(evs, e)
			}
		case "sendret":
			if sendKey[e.ID] {
				evs = append(evs, e)
			}
		case "tx":
			var items []txItem
			for _, it := range e.Items {
				if sess[it.Key.Sess] {
					items = append(items, it)
				}
			}
			if len(items) > 0 {
				c := e
				c.Items = items
				c.Note = fmt.Sprintf("%d items in tx, only those with the session ids in question shown", len(e.Items))
				evs = append(evs, c)
			}
		default:
			evs = append(evs, e)
		}
		if len(evs) > 700 {
			evs = append(evs, event{K: "truncated"})
			break
		}
	}
	var rest []dbItem
	for k, it := range lt.restored {
		if want[k] {
			rest = append(rest, it)
		}
	}
	return map[string]any{"world": rr.w, "lifetime": lt.idx, "lifetime_started_by": lt.how, "restored_for_keys": rest, "keys": keys, "events": evs,
		"replay": fmt.Sprintf("VERIF_SEED=%d ./check C29 (round %d); schedules are not replayable bit by bit, the event log is the witness", rr.w.Seed, rr.w.Round)}
}

type regIn struct {
	gather bool
	cu     uint64
}
type regOut struct {
	ex uint64
	up bool
	cu uint64
}

func registerModel(init uint64) porcupine.Model {
	return porcupine.Model{
		Init: func() interface{} { return init },
		Step: func(state, input, output interface{}) (bool, interface{}) {
			st, in, out := state.(uint64), input.(regIn), output.(regOut)
			if in.gather {
				return st == out.cu, uint64(0)
			}
			if st == 0 || in.cu > st {
				return out.up && out.ex == 0, in.cu
			}
			return !out.up && out.ex == st, st
		},
		DescribeOperation: func(input, output interface{}) string {
			in, out := input.(regIn), output.(regOut)
			if in.gather {
				return fmt.Sprintf("gather -> %d", out.cu)
			}
			return fmt.Sprintf("send(%d) -> (%d,%v)", in.cu, out.ex, out.up)
		},
	}
}

func (rr *roundRec) evalLifetime(lt *lifetimeRec) {
	w, rec := rr.w, rr.rec
	lt.parse()
	cls := rr.classes

	// ---- R2 window, R3 submission count, R7 unknown proofs
	subs := map[proofID]int{}
	firstTx := map[proofID]*txOp{}
	for _, tx := range lt.txs {
		for _, it := range tx.items {
			if !it.Known {
				rec.violation("claim-carries-unknown-proof", "signature-or-fields-not-of-a-sent-proof",
					fmt.Sprintf("a claim carried a relay session (epoch %d spec %s session %d cu %d relaynum %d) whose signature/fields match no proof the harness ever sent", it.Key.Epoch, it.Key.Spec, it.Key.Sess, it.Cu, it.Rn), rr.witness(lt))
				continue
			}
			e, c := it.Key.Epoch, tx.clock
			if w.active(e, c) {
				rec.violation("claim-in-active-window", "epoch-inside-active-window",
					fmt.Sprintf("claim for %s cu=%d submitted at epoch clock %d: epoch %d is still inside the active window (clock - %d)", it.Key, it.Cu, c, e, w.dist()), rr.witness(lt, it.Key))
			} else if e < w.earliest(c) {
				rec.violation("claim-out-of-chain-memory", "epoch-below-earliest-in-memory",
					fmt.Sprintf("claim for %s cu=%d submitted at epoch clock %d: earliest epoch in chain memory is %d", it.Key, it.Cu, c, w.earliest(c)), rr.witness(lt, it.Key))
			} else {
				if e+w.dist() == c {
					cls["claim_at_window_boundary_just_left"]++
				}
				if e == w.earliest(c) {
					cls["claim_at_memory_boundary_last_chance"]++
				}
			}
			id := proofID{it.Key, it.Cu, it.Rn}
			subs[id]++
			if firstTx[id] == nil {
				firstTx[id] = tx
			}
			rr.submittedEver[it.Key] = true
		}
	}
	for id, n := range subs {
		if n >= 2 {
			cls["proof_retried"]++
		}
		if n >= int(rewardserver.MaxPaymentRequestsRetiresForSession) {
			cls["proof_retries_exhausted_or_more"]++
		}
		if n > int(maxSubmissions) {
			// classify: was a claim of ANOTHER session with the same session id submitted in between?
			collision := false
			seen := 0
			for _, tx := range lt.txs {
				mine := false
				for _, it := range tx.items {
					if it.Known && (proofID{it.Key, it.Cu, it.Rn}) == id {
						mine = true
					}
				}
				if mine {
					seen++
				}
				if seen > 0 && seen <= n {
					for _, it := range tx.items {
						if it.Key.Sess == id.K.Sess && it.Key != id.K {
							collision = true
						}
					}
				}
			}
			// or: was the proof submitted twice within one step, i.e. by two overlapping epoch updates?
			overlap := false
			for _, st := range lt.steps {
				c := 0
				for _, tx := range lt.txs {
					if tx.t > st.tbegin && (st.tend == 0 || tx.t < st.tend) {
						for _, it := range tx.items {
							if it.Known && (proofID{it.Key, it.Cu, it.Rn}) == id {
								c++
							}
						}
					}
				}
				if c >= 2 {
					overlap = true
				}
			}
			sig := "no-equal-session-id-in-between"
			if overlap {
				sig = "overlapping-epoch-updates/both-resend-the-retry-table"
			} else if collision {
				sig = "retry-table-keyed-by-session-id/claim-of-another-session-with-equal-id-in-between"
			}
			rec.violation("proof-submitted-too-often", sig,
				fmt.Sprintf("proof %s was submitted %d times within one process lifetime (limit 1 + %d retries = %d)", id, n, rewardserver.MaxPaymentRequestsRetiresForSession, maxSubmissions), rr.witness(lt, id.K))
		}
	}

	// ---- R1 / R5: at the end of every completed step with a completed epoch update at the step's clock,
	// every claimable key must have been submitted with at least the best CuSum received before the update began
	best := map[pkey]uint64{}
	txi := 0
	keys := map[pkey]bool{}
	for k := range lt.restored {
		keys[k] = true
	}
	for k := range lt.byKey {
		keys[k] = true
	}
	reported := map[pkey]bool{}
	obligDone := map[pkey]bool{}
	updates := 0
	for _, st := range lt.steps {
		if st.tend == 0 {
			break
		}
		for txi < len(lt.txs) && lt.txs[txi].t < st.tend {
			for _, it := range lt.txs[txi].items {
				if it.Known && it.Cu > best[it.Key] {
					best[it.Key] = it.Cu
				}
			}
			txi++
		}
		first := int64(0)
		for _, c := range lt.claims {
			if c.tcall > st.tbegin && c.tcall < st.tend && c.tret > 0 && c.epoch == st.clock {
				if first == 0 || c.tcall < first {
					first = c.tcall
				}
			}
		}
		if first == 0 {
			continue
		}
		updates++
		for k := range keys {
			if reported[k] || !w.claimable(k.Epoch, st.clock) {
				continue
			}
			m, fromRestore := uint64(0), false
			if r, ok := lt.restored[k]; ok {
				m, fromRestore = r.Cu, true
			}
			late := false
			for _, s := range lt.byKey[k] {
				if s.tret > 0 && s.tret < first && s.cu > m {
					m, fromRestore = s.cu, false
				}
				if s.tcall > first {
					late = true
				}
			}
			if m == 0 {
				continue
			}
			if best[k] < m {
				reported[k] = true
				rule, sig := "claim-below-best-received", "lower-cu-submitted"
				if best[k] == 0 {
					sig = "never-submitted"
				}
				if fromRestore {
					rule = "restart-obligation-not-claimed"
				}
				rec.violation(rule, sig, fmt.Sprintf("%s: best CuSum received before the epoch update at clock %d began is %d (from reward DB at restart: %v); highest CuSum submitted for it by the end of that update: %d", k, st.clock, m, fromRestore, best[k]), rr.witness(lt, k))
				continue
			}
			cls["claimable_key_checked_ok"]++
			if late {
				cls["late_proof_after_gather_seen"]++
			}
			if _, ok := lt.restored[k]; ok && !obligDone[k] {
				obligDone[k] = true
				cls["restart_obligation_claimed"]++
				if updates > cls["max_epoch_updates_until_obligation_claimed"] {
					cls["max_epoch_updates_until_obligation_claimed"] = updates
				}
			}
		}
	}

	// ---- send-level classes
	for _, ss := range lt.byKey {
		for _, s := range ss {
			if s.tret == 0 {
				continue
			}
			if !s.up && s.ex > s.cu {
				cls["out_of_order_lower_proof_rejected"]++
			}
			if !s.up && s.ex == s.cu {
				cls["equal_cu_duplicate_rejected"]++
			}
			if s.up {
				cls["proof_accepted"]++
			}
		}
	}
	for _, c := range lt.claims {
		for _, c2 := range lt.claims {
			if c != c2 && c.tcall < c2.tcall && (c.tret == 0 || c2.tcall < c.tret) {
				cls["overlapping_epoch_updates"]++
			}
		}
	}

	// ---- R4 porcupine: max-register per key (only lifetimes that did not crash: no open operations)
	if lt.crashed {
		cls["lifetimes_crashed_no_linearizability_check"]++
		return
	}
	gathers := map[pkey][]porcupine.Operation{}
	seenProof := map[proofID]bool{}
	for _, tx := range lt.txs {
		for _, it := range tx.items {
			id := proofID{it.Key, it.Cu, it.Rn}
			if !it.Known || seenProof[id] {
				continue
			}
			seenProof[id] = true
			call := tx.t - 1
			for _, c := range lt.claims {
				if c.tcall < tx.t && (c.tret == 0 || c.tret > tx.t) && c.tcall < call {
					call = c.tcall
				}
			}
			gathers[it.Key] = append(gathers[it.Key], porcupine.Operation{ClientId: 0, Input: regIn{gather: true}, Call: call, Output: regOut{cu: it.Cu}, Return: tx.t})
		}
	}
	for k := range keys {
		ss := lt.byKey[k]
		if len(ss)+len(gathers[k]) < 2 {
			continue
		}
		ops := append([]porcupine.Operation{}, gathers[k]...)
		conc := false
		for i, s := range ss {
			ops = append(ops, porcupine.Operation{ClientId: 1 + i%7, Input: regIn{cu: s.cu}, Call: s.tcall, Output: regOut{ex: s.ex, up: s.up}, Return: s.tret})
			for _, s2 := range ss[:i] {
				if s2.tret > s.tcall && s.tret > s2.tcall {
					conc = true
				}
			}
		}
		init := uint64(0)
		if r, ok := lt.restored[k]; ok {
			init = r.Cu
		}
		res := porcupine.CheckOperationsTimeout(registerModel(init), ops, 2*time.Minute)
		cls["porcupine_histories_checked"]++
		if conc {
			cls["porcupine_histories_with_concurrent_sends"]++
		}
		switch res {
		case porcupine.Illegal:
			var hs []string
			for _, s := range ss {
				hs = append(hs, fmt.Sprintf("[%d,%d] send(%d)->(%d,%v)", s.tcall, s.tret, s.cu, s.ex, s.up))
			}
			for _, g := range gathers[k] {
				hs = append(hs, fmt.Sprintf("[%d,%d] gather->%d", g.Call, g.Return, g.Output.(regOut).cu))
			}
			rec.violation("proof-register-not-linearizable", "max-register",
				fmt.Sprintf("%s: SendNewProof return values and claimed CuSums are not a linearizable history of a max-register (initial %d): %s", k, init, strings.Join(hs, "; ")), rr.witness(lt, k))
		case porcupine.Unknown:
			rec.Inconclusive = append(rec.Inconclusive, "porcupine timeout on "+k.String())
		}
	}
}

// atRestart: R6 (snapshotted unclaimed proofs must be in the DB) and bookkeeping of snapshot evidence.
func (rr *roundRec) noteSnapshots(lt *lifetimeRec) {
	if lt.crashed {
		return
	}
	for k, r := range lt.restored {
		if r.Cu > rr.snapEvidence[k] {
			rr.snapEvidence[k] = r.Cu
		}
	}
	for _, sn := range lt.snaps {
		if sn.tret == 0 {
			continue
		}
		for _, s := range lt.sends {
			if s.tret > 0 && s.tret < sn.tcall && s.cu > rr.snapEvidence[s.key] {
				rr.snapEvidence[s.key] = s.cu
			}
		}
	}
}

func (rr *roundRec) checkDBAtRestart(prev *lifetimeRec, db []dbItem, clock uint64) {
	have := map[pkey]uint64{}
	for _, it := range db {
		have[it.Key] = it.Cu
	}
	for k, cu := range rr.snapEvidence {
		if k.Epoch < rr.w.earliest(clock) || rr.submittedEver[k] {
			continue
		}
		rr.classes["snapshotted_unclaimed_proof_found_in_db"]++
		if have[k] < cu {
			sig := "missing"
			if have[k] > 0 {
				sig = "lower-cu-in-db"
			}
			rr.rec.violation("snapshotted-unclaimed-proof-missing-from-db", sig,
				fmt.Sprintf("%s: CuSum %d was snapshotted to the reward DB, was never submitted and its epoch is still in chain memory (earliest %d), but the DB read at restart holds CuSum %d for it", k, cu, rr.w.earliest(clock), have[k]), rr.witness(prev, k))
			rr.classes["snapshotted_unclaimed_proof_found_in_db"]--
		}
	}
}

// ------------------------------------------------------------------ rounds

func silence() {
	utils.SetGlobalLoggingLevel("fatal")
}

func newLifetime(idx int, how string, w *world, db []dbItem, clock uint64) *lifetimeRec {
	lt := &lifetimeRec{idx: idx, how: how, restored: map[pkey]dbItem{}, dbAll: db, clock0: clock}
	for _, it := range db {
		if it.Key.Epoch >= w.earliest(clock) && it.Key.Cons >= 0 {
			lt.restored[it.Key] = it
		}
	}
	return lt
}

// runRound: one world, several in-process incarnations ("abandon and reopen" on the same badger dir).
func runRound(rec *recorder, seed int64, round int, classes map[string]int) {
	w := newWorld(seed, round)
	dir, err := os.MkdirTemp("", "verif-c29-*")
	if err != nil {
		panic(err)
	}
	defer os.RemoveAll(dir)
	rng := vrand.Sub(seed, "c29-round", round)
	sk := &sink{}
	d := newDriver(w, sk, dir)
	rr := &roundRec{w: w, submittedEver: map[pkey]bool{}, snapEvidence: map[pkey]uint64{}, rec: rec, classes: classes}
	d.startFresh()
	lt := newLifetime(0, "fresh", w, nil, d.clock)
	rr.lts = append(rr.lts, lt)
	restarts := 0
	sinceRestart := 1000
	drain := int(w.K) + 2
	for s := 0; s < w.Steps+drain; s++ {
		d.randomStep(rng, s < w.Steps)
		sinceRestart++
		if s < w.Steps+drain-int(w.K)-1 && restarts < 3 && sinceRestart > int(w.K)+1 && rng.Intn(100) < 22 {
			// abandon the server (optionally after one more snapshot) and reopen the same directory
			if rng.Intn(2) == 0 {
				opID := sk.id()
				sk.emit(event{K: "snap", ID: opID})
				d.srv.VerifSnapshotNow()
				sk.emit(event{K: "snapret", ID: opID})
			}
			lt.events = sk.take()
			rr.evalLifetime(lt)
			rr.noteSnapshots(lt)
			if err := d.srv.CloseAllDataBases(); err != nil {
				rec.Inconclusive = append(rec.Inconclusive, "closing reward DB failed: "+err.Error())
				return
			}
			rdb, db, err := d.openDB()
			if err != nil {
				rec.Inconclusive = append(rec.Inconclusive, "reopening reward DB failed: "+err.Error())
				return
			}
			rr.checkDBAtRestart(lt, db, d.clock)
			sk.emit(event{K: "restart", Clock: d.clock, DB: db})
			restarts++
			sinceRestart = 0
			classes["restarts_in_process"]++
			prev := lt
			lt = newLifetime(len(rr.lts), "abandon-and-reopen", w, db, d.clock)
			rr.lts = append(rr.lts, lt)
			classes["restart_obligations"] += len(lt.restored)
			if missing := d.restartFrom(rdb, db); len(missing) > 0 {
				rec.violation("db-proof-not-restored", "after-restoreRewardsFromDB",
					fmt.Sprintf("%d proof(s) present in the reward DB at restart with an epoch still in chain memory are not in the restarted server's memory, e.g. %s cu=%d", len(missing), missing[0].Key, missing[0].Cu), rr.witness(prev, missing[0].Key))
			}
		}
	}
	lt.events = sk.take()
	rr.evalLifetime(lt)
	d.srv.CloseAllDataBases()
	classes["AddDataBase_calls_for_a_chain_already_served"] += int(d.addDBCalls.Load())

	rec.Evals++
	finishRound(rec, rr, classes, fmt.Sprintf("round %d", round))
}

func finishRound(rec *recorder, rr *roundRec, classes map[string]int, label string) {
	// a round is non-trivial when, in it, a lower out-of-order proof was rejected while the higher one was kept,
	// a failed claim was retried, and a restart obligation was claimed by the restarted server
	sendsN, txN := 0, 0
	for _, lt := range rr.lts {
		sendsN += len(lt.sends)
		txN += len(lt.txs)
	}
	rec.count("proofs_sent", sendsN)
	rec.count("tx_relay_payment_calls", txN)
	if len(rec.Samples) < 3 {
		var evs []event
		if len(rr.lts) > 0 {
			evs = rr.lts[0].events
			if len(evs) > 25 {
				evs = evs[:25]
			}
		}
		rec.Samples = append(rec.Samples, map[string]any{"case": label, "world": rr.w, "lifetimes": len(rr.lts), "first_events": evs})
	}
}

// runDirectedCollision: the session-id collision case of the statement's quantifier, made deterministic.
// Consumer 0 has a proof P for session id 7 whose transaction always fails. In every later epoch another
// consumer's session with the SAME id 7 becomes claimable and its transaction succeeds. The mock lets the
// failing retry transaction report back after the successful one has been processed (it watches the
// retry table through the hook view). Everything else is the ordinary driver and the ordinary oracles.
func runDirectedCollision(rec *recorder, seed int64, classes map[string]int) {
	w := newWorld(seed, -1)
	w.Small, w.Specs, w.Sessions, w.K, w.Mm, w.G, w.PerG, w.Steps = true, []string{"LAV1"}, []uint64{7}, 2, 9, 8, 1, 9
	if w.NCons < 3 {
		w = newWorldWithConsumers(w, 3)
	}
	dir, err := os.MkdirTemp("", "verif-c29-directed-*")
	if err != nil {
		panic(err)
	}
	defer os.RemoveAll(dir)
	sk := &sink{}
	d := newDriver(w, sk, dir)
	rr := &roundRec{w: w, submittedEver: map[pkey]bool{}, snapEvidence: map[pkey]uint64{}, rec: rec, classes: classes}
	d.startFresh()
	d.mock.steer = func(items []txItem) bool {
		for _, r := range d.srv.VerifRetryTable() {
			if r.TableKey == 7 {
				return false // the successful claim of the other session 7 has not been processed yet
			}
		}
		return true
	}
	lt := newLifetime(0, "fresh", w, nil, d.clock)
	rr.lts = append(rr.lts, lt)
	rng := vrand.Sub(seed, "c29-directed", 0)
	mk := func(cons int, epoch, cu uint64, failK int) planned {
		k := pkey{Epoch: epoch, Cons: cons, Spec: "LAV1", Sess: 7}
		if _, seen := d.nextRn[k]; !seen {
			d.nextRn[k] = 1
			d.byEpoch[epoch] = append(d.byEpoch[epoch], k)
		}
		p := planned{K: k, Cu: cu, Rn: d.nextRn[k], FailK: failK}
		d.nextRn[k]++
		d.lastCu[k] = cu
		return p
	}
	// step 1: P (consumer 0, epoch = clock, always failing)
	d.step(rng, stepOpts{scripted: []planned{mk(0, d.clock, 10, 1000)}, sends: true, claims: 1})
	for i := 0; i < int(w.Mm)+2; i++ {
		// every epoch: one more session 7 of another consumer, sent while its epoch is active
		d.step(rng, stepOpts{advance: 1, scripted: []planned{}, sends: true, claims: 0})
		d.step(rng, stepOpts{scripted: []planned{mk(1+i%2, d.clock, 5, 0)}, sends: true, claims: 0})
		d.step(rng, stepOpts{scripted: []planned{}, sends: true, claims: 1})
	}
	lt.events = sk.take()
	rr.evalLifetime(lt)
	d.srv.CloseAllDataBases()
	rec.Evals++
	classes["directed_session_id_collision_scenarios"]++
	finishRound(rec, rr, classes, "directed: equal session id under different consumers, one transaction always failing")
}

// runDirectedOverlap: two epoch updates that overlap (UpdateEpoch starts a goroutine per epoch; the
// previous one may still be waiting for its transaction). A proof whose first two transactions fail is in
// the retry table; both overlapping updates gather the table and submit it. The mock holds each tx until
// both updates have sent theirs, and lets the failing one report back after the successful one was processed.
func runDirectedOverlap(rec *recorder, seed int64, classes map[string]int) {
	w := newWorld(seed, -2)
	w.Small, w.Specs, w.Sessions, w.K, w.Mm, w.G, w.PerG, w.Steps = true, []string{"LAV1"}, []uint64{7}, 2, 9, 8, 1, 6
	dir, err := os.MkdirTemp("", "verif-c29-directed-*")
	if err != nil {
		panic(err)
	}
	defer os.RemoveAll(dir)
	sk := &sink{}
	d := newDriver(w, sk, dir)
	rr := &roundRec{w: w, submittedEver: map[pkey]bool{}, snapEvidence: map[pkey]uint64{}, rec: rec, classes: classes}
	d.startFresh()
	var overlapping atomic.Bool
	tableHas7 := func() bool {
		for _, r := range d.srv.VerifRetryTable() {
			if r.TableKey == 7 {
				return true
			}
		}
		return false
	}
	d.mock.hold = func(items []txItem, fail bool) {
		if !overlapping.Load() {
			return
		}
		for i := 0; i < 20000 && d.mock.entered.Load() < 2; i++ { // bounded: both updates have sent their tx
			runtime.Gosched()
			time.Sleep(20 * time.Microsecond)
		}
		if fail {
			for i := 0; i < 20000 && tableHas7(); i++ { // bounded: the successful one has been processed
				runtime.Gosched()
				time.Sleep(20 * time.Microsecond)
			}
		}
	}
	lt := newLifetime(0, "fresh", w, nil, d.clock)
	rr.lts = append(rr.lts, lt)
	rng := vrand.Sub(seed, "c29-directed", 1)
	k := pkey{Epoch: d.clock, Cons: 0, Spec: "LAV1", Sess: 7}
	d.nextRn[k], d.lastCu[k] = 2, 10
	d.byEpoch[k.Epoch] = append(d.byEpoch[k.Epoch], k)
	d.step(rng, stepOpts{scripted: []planned{{K: k, Cu: 10, Rn: 1, FailK: 2}}, sends: true, claims: 0})
	d.step(rng, stepOpts{advance: 1, scripted: []planned{}, sends: true, claims: 1})
	d.step(rng, stepOpts{advance: 1, scripted: []planned{}, sends: true, claims: 1}) // first submission, fails
	for i := 0; i < 2; i++ {
		d.mock.entered.Store(0)
		overlapping.Store(true)
		d.step(rng, stepOpts{advance: 1, scripted: []planned{}, sends: true, claims: 2}) // this epoch's update and the delayed previous one
		overlapping.Store(false)
	}
	d.step(rng, stepOpts{advance: 1, scripted: []planned{}, sends: true, claims: 1})
	lt.events = sk.take()
	rr.evalLifetime(lt)
	d.srv.CloseAllDataBases()
	rec.Evals++
	classes["directed_overlapping_epoch_update_scenarios"]++
	finishRound(rec, rr, classes, "directed: two overlapping epoch updates, a proof whose first two transactions fail")
}

func newWorldWithConsumers(w *world, n int) *world {
	kr := sigs.NewZeroReader(w.Seed*104729 + 17)
	w.accs, w.addrs = nil, nil
	for i := 0; i < n; i++ {
		acc := sigs.GenerateDeterministicFloatingKey(kr)
		w.accs = append(w.accs, acc)
		w.addrs = append(w.addrs, acc.Addr.String())
	}
	w.NCons = n
	return w
}

// ------------------------------------------------------------------ crash tier (thorough)

type childCfg struct {
	Seed   int64  `json:"seed"`
	Round  int    `json:"round"`
	Dir    string `json:"dir"`
	Log    string `json:"log"`
	KillAt int    `json:"kill_at"`
}

// TestC29Child is the first incarnation of a crash scenario: it dies at a crash point
// (VERIF_CRASH_AT, hook H5) or kills itself with SIGKILL at a chosen operation count.
func TestC29Child(t *testing.T) {
	raw := os.Getenv("VERIF_C29_CHILD")
	if raw == "" {
		t.Skip("helper process of TestC29")
	}
	var cfg childCfg
	if err := json.Unmarshal([]byte(raw), &cfg); err != nil {
		t.Fatal(err)
	}
	silence()
	lavarand.SetSpecificSeed(cfg.Seed)
	f, err := os.OpenFile(cfg.Log, os.O_CREATE|os.O_WRONLY|os.O_APPEND, 0o644)
	if err != nil {
		t.Fatal(err)
	}
	w := newWorld(cfg.Seed, cfg.Round)
	sk := &sink{f: f, killAt: cfg.KillAt}
	d := newDriver(w, sk, cfg.Dir)
	rng := vrand.Sub(cfg.Seed, "c29-crash-child", cfg.Round)
	d.startFresh()
	for s := 0; s < w.Steps; s++ {
		d.randomStep(rng, true)
	}
	sk.emit(event{K: "child-finished"})
	os.Exit(0) // crash point never reached: leave without closing anything
}

func readChildLog(path string) []event {
	f, err := os.Open(path)
	if err != nil {
		return nil
	}
	defer f.Close()
	var out []event
	sc := bufio.NewScanner(f)
	sc.Buffer(make([]byte, 1<<20), 1<<26)
	for sc.Scan() {
		var e event
		if json.Unmarshal(sc.Bytes(), &e) != nil {
			break // torn last line
		}
		out = append(out, e)
	}
	return out
}

type crashScenario struct {
	Point  string `json:"point,omitempty"`
	N      int    `json:"n,omitempty"`
	KillAt int    `json:"kill_at_op,omitempty"`
}

func runCrashScenario(rec *recorder, seed int64, round int, sc crashScenario, classes map[string]int) {
	w := newWorld(seed, round)
	dir, err := os.MkdirTemp("", "verif-c29-crash-*")
	if err != nil {
		panic(err)
	}
	defer os.RemoveAll(dir)
	logPath := filepath.Join(dir, "events.jsonl")
	dbDir := filepath.Join(dir, "db")
	cfg, _ := json.Marshal(childCfg{Seed: seed, Round: round, Dir: dbDir, Log: logPath, KillAt: sc.KillAt})
	cmd := exec.Command(os.Args[0], "-test.run", "^TestC29Child$", "-test.timeout", "0")
	cmd.Env = append(os.Environ(), "VERIF_C29_CHILD="+string(cfg), "VERIF_C29_WORKER=")
	if sc.Point != "" {
		cmd.Env = append(cmd.Env, fmt.Sprintf("VERIF_CRASH_AT=%s:%d", sc.Point, sc.N))
	}
	var stderr bytes.Buffer
	cmd.Stderr = &stderr
	done := make(chan error, 1)
	if err := cmd.Start(); err != nil {
		rec.Inconclusive = append(rec.Inconclusive, "cannot start crash child: "+err.Error())
		return
	}
	go func() { done <- cmd.Wait() }()
	var werr error
	select {
	case werr = <-done:
	case <-time.After(10 * time.Minute): // watchdog only
		cmd.Process.Kill()
		<-done
		rec.Inconclusive = append(rec.Inconclusive, fmt.Sprintf("crash child hung (watchdog) scenario %+v", sc))
		return
	}
	how := "child-finished-without-crash"
	if ee, ok := werr.(*exec.ExitError); ok {
		if ws, ok := ee.Sys().(syscall.WaitStatus); ok && ws.Signaled() && ws.Signal() == syscall.SIGKILL {
			how = fmt.Sprintf("SIGKILL at op %d", sc.KillAt)
			classes["child_died_by_sigkill"]++
		} else if ee.ExitCode() == rewardserver.VerifCrashExitCode {
			how = fmt.Sprintf("crash point %s:%d", sc.Point, sc.N)
			classes["child_died_at_crash_point:"+sc.Point]++
		} else if ee.ExitCode() == 66 {
			// the race detector's exit code: the child ran to its end (crash point / kill op never reached)
			// and a race had been reported on the way (reports are counted from the GORACE logs)
			classes["child_crash_point_not_reached"]++
		} else {
			rec.Inconclusive = append(rec.Inconclusive, fmt.Sprintf("crash child ended unexpectedly (%v) scenario %+v: %s", werr, sc, tail(stderr.String(), 600)))
			return
		}
	} else {
		classes["child_crash_point_not_reached"]++
	}
	evs := readChildLog(logPath)
	if len(evs) == 0 {
		rec.Inconclusive = append(rec.Inconclusive, fmt.Sprintf("crash child left no event log, scenario %+v", sc))
		return
	}
	rr := &roundRec{w: w, submittedEver: map[pkey]bool{}, snapEvidence: map[pkey]uint64{}, rec: rec, classes: classes}
	lt1 := newLifetime(0, "fresh (child process, ended by "+how+")", w, nil, 0)
	lt1.events = evs
	lt1.crashed = true
	rr.lts = append(rr.lts, lt1)

	// second incarnation in this process, on the directory the child left behind
	sk := &sink{clk: evs[len(evs)-1].T + 1000}
	d := newDriver(w, sk, dbDir)
	for _, e := range evs {
		switch e.K {
		case "clock":
			d.prev, d.clock = d.clock, e.Clock
		case "send":
			k := *e.Key
			d.mock.register(proofID{k, e.Cu, e.Rn}, e.Sig, 0)
			if e.Cu > d.lastCu[k] {
				d.lastCu[k] = e.Cu
			}
			if e.Rn >= d.nextRn[k] {
				if _, seen := d.nextRn[k]; !seen {
					d.byEpoch[k.Epoch] = append(d.byEpoch[k.Epoch], k)
				}
				d.nextRn[k] = e.Rn + 1
			}
		}
	}
	for i := range lt1.events {
		lt1.events[i].Sig = nil
	}
	d.mock.clock.Store(d.clock)
	rr.evalLifetime(lt1)
	rdb, db, err := d.openDB()
	if err != nil {
		rec.Inconclusive = append(rec.Inconclusive, "opening the reward DB left by the child failed: "+err.Error())
		return
	}
	sk.emit(event{K: "restart", Clock: d.clock, DB: db, Note: how})
	lt2 := newLifetime(1, "restart after "+how, w, db, d.clock)
	rr.lts = append(rr.lts, lt2)
	classes["restart_obligations"] += len(lt2.restored)
	classes["restart_obligations_after_crash"] += len(lt2.restored)
	classes["restarts_after_child_death"]++
	if missing := d.restartFrom(rdb, db); len(missing) > 0 {
		rec.violation("db-proof-not-restored", "after-restoreRewardsFromDB",
			fmt.Sprintf("%d proof(s) present in the reward DB after the child died (%s) are not in the restarted server's memory, e.g. %s cu=%d", len(missing), how, missing[0].Key, missing[0].Cu), rr.witness(lt1, missing[0].Key))
	}
	rng := vrand.Sub(seed, "c29-crash-parent", round)
	for s := 0; s < int(w.K)+3; s++ {
		d.randomStep(rng, s < 2)
	}
	lt2.events = sk.take()
	rr.evalLifetime(lt2)
	d.srv.CloseAllDataBases()
	rec.Evals++
	finishRound(rec, rr, classes, fmt.Sprintf("crash scenario %+v round %d", sc, round))
}

func tail(s string, n int) string {
	if len(s) > n {
		return s[len(s)-n:]
	}
	return s
}

// ------------------------------------------------------------------ worker / parent

func newRecorder() *recorder {
	return &recorder{Counters: map[string]int{}, seenViol: map[string]int{}}
}

func (r *recorder) merge(o *recorder, classes map[string]int) {
	r.Evals += o.Evals
	r.Nontrivial = append(r.Nontrivial, o.Nontrivial...)
	for _, s := range o.Samples {
		if len(r.Samples) < 3 {
			r.Samples = append(r.Samples, s)
		}
	}
	for k, v := range o.Counters {
		r.Counters[k] += v
	}
	for k, v := range classes {
		if strings.HasPrefix(k, "max_") {
			if v > r.Counters[k] {
				r.Counters[k] = v
			}
			continue
		}
		r.Counters[k] += v
	}
	for _, v := range o.Violations {
		r.violation(v.Rule, v.Sig, v.Desc, v.Witness)
	}
	r.Inconclusive = append(r.Inconclusive, o.Inconclusive...)
}

type job struct {
	round int
	crash *crashScenario
}

func worker(resultPath string) {
	run := ev.Start("C29") // only for tier / seed
	silence()
	lavarand.SetSpecificSeed(run.Seed)
	total := newRecorder()
	rounds := run.Pick(12, 200)
	if v, err := strconv.Atoi(os.Getenv("VERIF_C29_DEBUG_ROUNDS")); err == nil && v > 0 {
		rounds = v // debugging aid only; ./check never sets it
	}
	jobs := []job{{round: -1}, {round: -2}}
	for r := 0; r < rounds; r++ {
		jobs = append(jobs, job{round: r})
	}
	if run.Thorough() {
		var scs []crashScenario
		for _, p := range []string{"after_batch_save", "before_tx_relay_payment", "after_tx_relay_payment"} {
			for n := 1; n <= 6; n++ {
				scs = append(scs, crashScenario{Point: p, N: n})
			}
		}
		krng := vrand.New(run.Seed, "c29-sigkill")
		for i := 0; i < 18; i++ {
			scs = append(scs, crashScenario{KillAt: 5 + krng.Intn(400)})
		}
		for i := range scs {
			jobs = append(jobs, job{round: 100000 + i, crash: &scs[i]})
		}
	}
	// rounds are independent (own server, own badger directory, own event log): a few run side by side
	var mu sync.Mutex
	var wg sync.WaitGroup
	next := 0
	for p := 0; p < 4; p++ {
		wg.Add(1)
		go func() {
			defer wg.Done()
			for {
				mu.Lock()
				if next >= len(jobs) || len(total.Violations) >= 8 {
					mu.Unlock()
					return
				}
				j := jobs[next]
				next++
				mu.Unlock()
				rec, classes := newRecorder(), map[string]int{}
				if j.round == -1 {
					runDirectedCollision(rec, run.Seed, classes)
				} else if j.round == -2 {
					runDirectedOverlap(rec, run.Seed, classes)
				} else if j.crash == nil {
					runRound(rec, run.Seed, j.round, classes)
					if classes["out_of_order_lower_proof_rejected"] > 0 && classes["proof_retried"] > 0 && classes["restart_obligation_claimed"] > 0 {
						rec.Nontrivial = append(rec.Nontrivial, fmt.Sprintf("round-%d-seed-%d", j.round, run.Seed))
					}
				} else {
					runCrashScenario(rec, run.Seed, j.round, *j.crash, classes)
					if classes["restart_obligation_claimed"] > 0 {
						rec.Nontrivial = append(rec.Nontrivial, fmt.Sprintf("crash-%+v-seed-%d", *j.crash, run.Seed))
					}
				}
				mu.Lock()
				total.merge(rec, classes)
				mu.Unlock()
			}
		}()
	}
	wg.Wait()
	b, _ := json.Marshal(total)
	if err := os.WriteFile(resultPath, b, 0o644); err != nil {
		fmt.Fprintln(os.Stderr, "worker cannot write result:", err)
		os.Exit(3)
	}
}

var lineNo = regexp.MustCompile(`:\d+ \+0x[0-9a-f]+`)

// raceReports parses GORACE logs: returns distinct reports keyed by the two top frames.
func raceReports(prefix string) (total int, distinct map[string]string) {
	distinct = map[string]string{}
	files, _ := filepath.Glob(prefix + "*")
	for _, f := range files {
		b, err := os.ReadFile(f)
		if err != nil {
			continue
		}
		for _, blk := range strings.Split(string(b), "WARNING: DATA RACE")[1:] {
			total++
			var tops []string
			lines := strings.Split(blk, "\n")
			for i, l := range lines {
				t := strings.TrimSpace(l)
				if (strings.HasPrefix(t, "Write at") || strings.HasPrefix(t, "Read at") || strings.HasPrefix(t, "Previous write at") || strings.HasPrefix(t, "Previous read at")) && i+1 < len(lines) {
					kind := strings.Fields(t)[0]
					if kind == "Previous" {
						kind = strings.Fields(t)[1]
					}
					// first frame that is not a runtime map/slice helper
					fn := ""
					for j := i + 1; j < len(lines) && strings.TrimSpace(lines[j]) != ""; j += 2 {
						fn = strings.TrimSpace(lines[j])
						if !strings.HasPrefix(fn, "runtime.") {
							break
						}
					}
					tops = append(tops, strings.ToLower(kind)+" "+fn)
				}
			}
			sort.Strings(tops)
			key := strings.Join(tops, " <-> ")
			if _, ok := distinct[key]; !ok {
				distinct[key] = lineNo.ReplaceAllString(tail(blk, 1<<20), "")
				if len(distinct[key]) > 3000 {
					distinct[key] = distinct[key][:3000]
				}
			}
		}
	}
	return total, distinct
}

// a race is attributed to the property only when one side WRITES proof state: the functions that
// mutate rws.rewards / the proofs maps / the retry table.
var proofStateWriters = []string{"saveProofInMemory", "gatherRewardsForClaim", "updatePaymentRequestAttempt", "gatherFailedRequestPaymentsToRetry", "restoreRewardsFromDB"}

func TestC29(t *testing.T) {
	if p := os.Getenv("VERIF_C29_WORKER"); p != "" {
		worker(p)
		return
	}
	run := ev.Start("C29")
	if run.Thorough() {
		run.Level = "fault_enumeration"
	}
	outDir := filepath.Join(ev.Dir(), ".out")
	os.MkdirAll(outDir, 0o755)
	resultPath := filepath.Join(outDir, "C29.worker.json")
	racePrefix := filepath.Join(outDir, "C29.race")
	os.Remove(resultPath)
	if old, _ := filepath.Glob(racePrefix + "*"); len(old) > 0 {
		for _, f := range old {
			os.Remove(f)
		}
	}
	cmd := exec.Command(os.Args[0], "-test.run", "^TestC29$", "-test.timeout", "0")
	cmd.Env = append(os.Environ(), "VERIF_C29_WORKER="+resultPath, "GORACE=halt_on_error=0 log_path="+racePrefix)
	cmd.Stdout, cmd.Stderr = os.Stdout, os.Stderr
	werr := cmd.Run()
	var rec recorder
	b, rerr := os.ReadFile(resultPath)
	if rerr != nil || json.Unmarshal(b, &rec) != nil {
		run.Inconclusive(fmt.Sprintf("worker process left no result (%v, %v)", werr, rerr))
		run.Finish("worker died", 1)
		return
	}
	run.Eval(rec.Evals)
	for _, s := range rec.Nontrivial {
		run.Nontrivial(s)
	}
	for _, s := range rec.Samples {
		run.Sample(s)
	}
	for k, v := range rec.Counters {
		run.Count(k, v)
	}
	for _, s := range rec.Inconclusive {
		run.Inconclusive(s)
	}
	for _, v := range rec.Violations {
		run.Violation(v.Rule, v.Sig, v.Desc, v.Witness)
	}
	total, distinct := raceReports(racePrefix)
	run.Count("race_reports_total", total)
	run.Count("race_reports_distinct", len(distinct))
	other := []string{}
	for key, blk := range distinct {
		attributed := false
		for _, side := range strings.Split(key, " <-> ") {
			if strings.HasPrefix(side, "write ") {
				for _, fn := range proofStateWriters {
					if strings.Contains(side, "rewardserver.(*RewardServer)."+fn) {
						attributed = true
					}
				}
			}
		}
		if attributed {
			run.Violation("data-race-on-proof-state", key, "the race detector reported unsynchronised access where one side writes reward-proof state", map[string]any{"report": blk})
		} else {
			other = append(other, key)
		}
	}
	sort.Strings(other)
	run.Set("race_reports_not_attributed", other)
	run.Count("race_reports_not_attributed", len(other))

	{
		c := func(k string) bool { return rec.Counters[k] > 0 }
		run.Require("out-of-order (lower) proofs were rejected", c("out_of_order_lower_proof_rejected"))
		run.Require("equal-CU duplicates were rejected", c("equal_cu_duplicate_rejected"))
		run.Require("failed claims were retried", c("proof_retried"))
		run.Require("retries were exhausted for some proof", c("proof_retries_exhausted_or_more"))
		run.Require("claims at the window boundary (epoch just left the active window)", c("claim_at_window_boundary_just_left"))
		run.Require("restarts occurred", c("restarts_in_process"))
		run.Require("restart obligations were claimed by the restarted server", c("restart_obligation_claimed"))
		run.Require("snapshotted unclaimed proofs were looked up in the DB at restart", c("snapshotted_unclaimed_proof_found_in_db"))
		run.Require("overlapping epoch updates occurred", c("overlapping_epoch_updates"))
		run.Require("late proofs (after their epoch was gathered) occurred", c("late_proof_after_gather_seen"))
		run.Require("linearizability histories with concurrent sends were checked", c("porcupine_histories_with_concurrent_sends"))
		if run.Thorough() {
			for _, p := range []string{"after_batch_save", "before_tx_relay_payment", "after_tx_relay_payment"} {
				run.Require("child died at crash point "+p, c("child_died_at_crash_point:"+p))
			}
			run.Require("child died by SIGKILL", c("child_died_by_sigkill"))
			run.Require("obligations after a crash were evaluated", c("restart_obligations_after_crash"))
		}
	}
	floor := run.Pick(5, 90)
	run.Finish("rounds of 8-32 goroutines sending signed proofs in shuffled order (higher, lower, equal-CU duplicates, stragglers after the epoch left the window) for few session ids shared by consumers / epochs / chains, concurrent with synchronous epoch updates (incl. an overlapping delayed update), snapshots and scripted fail-k-times transactions, on the real RewardServer + badger reward DB with in-process abandon-and-reopen restarts (thorough: child processes killed at each crash point x n-th arrival and by SIGKILL at PRNG-chosen op counts). Oracles over the logical-time event log: no claim in the active window / out of chain memory; every claimable key submitted with at least the best CuSum received before the update began; each proof submitted <= 1+3 times per lifetime; SendNewProof results + claimed CuSums linearizable as a max-register (porcupine); DB contents at restart restored and claimed; snapshotted unclaimed proofs present in the DB. A round is non-trivial when in it a lower out-of-order proof was rejected, a failed claim was retried and a restart obligation was claimed; distinct = distinct rounds", floor,
		"the epoch clock does not move while an epoch update is running (it is advanced between steps)",
		"'configured number of retries' = MaxPaymentRequestsRetiresForSession (3); a proof = (epoch, consumer, chain, session, CuSum, relay number)",
		"'still claimed' is decided as bounded progress: submitted by the end of the first completed epoch update at which the epoch is claimable",
		"payments are never confirmed (PaymentHandler is not called): the reward DB keeps claimed proofs, as it does until the payment event is seen",
		"crash tier: linearizability is not checked for the incarnation that crashed (open operations)")
}
