#!/usr/bin/env python3
# tools/gen_design_tables.py : regenerate the two tables of DESIGN.md section 8 from seeded/results.json
# (what each seeded change does is taken from seeded/<id>/meta.json, written by the sub-agent that built it).
import json, os, re
V = os.path.dirname(os.path.dirname(os.path.abspath(__file__)))
res = json.load(open(f"{V}/seeded/results.json"))
def cell(s): return str(s).replace("|", "\\|").replace("\n", " ")
rows = ["| seed | what the change does (from its meta.json) | caught by | how it was caught / what had to be strengthened |", "|---|---|---|---|"]
for s in sorted(res["seeds"], key=lambda x: x["id"]):
    what = s.get("what", "")
    mp = f"{V}/seeded/{s['id']}/meta.json"
    if os.path.exists(mp):
        what = json.load(open(mp)).get("summary", what)
    if len(what) > 330: what = what[:327] + "..."
    rows.append(f"| {s['id']} | {cell(what)} | {cell(s['caught_by'])} | {cell(s.get('note',''))} |")
seedtab = "\n".join(rows)
rows = ["| break (tools/breaks.list) | caught by | note |", "|---|---|---|"]
for b in res["breaks"]:
    rows.append(f"| {b['id']} | {cell(b['caught_by'])} | {cell(b.get('note',''))} |")
breaktab = "\n".join(rows)
p = f"{V}/DESIGN.md"
d = open(p).read()
d = re.sub(r"<!-- SEEDTABLE-BEGIN -->.*?<!-- SEEDTABLE-END -->", lambda m: "<!-- SEEDTABLE-BEGIN -->\n" + seedtab + "\n<!-- SEEDTABLE-END -->", d, flags=re.S)
d = re.sub(r"<!-- BREAKTABLE-BEGIN -->.*?<!-- BREAKTABLE-END -->", lambda m: "<!-- BREAKTABLE-BEGIN -->\n" + breaktab + "\n<!-- BREAKTABLE-END -->", d, flags=re.S)
open(p, "w").write(d)
# record which checks were run against each seed in its meta.json
for s in res["seeds"]:
    mp = f"{V}/seeded/{s['id']}/meta.json"
    if os.path.exists(mp):
        m = json.load(open(mp)); m["caught_by"] = s["caught_by"]; m["lead_note"] = s.get("note", "")
        json.dump(m, open(mp, "w"), indent=2)
print("tables written:", len(res["seeds"]), "seeds,", len(res["breaks"]), "breaks")
