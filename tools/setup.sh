#!/bin/bash
# Offline setup: regenerate go.mod/go.sum and pre-build every check's test binary (warms the Go build cache).
export GOFLAGS=-mod=mod GOPROXY=off GOSUMDB=off GOTOOLCHAIN=local
cd /verif || exit 1
tools/genmod.sh || exit 1
pkgs=$(awk '!/^#/ && NF {print $2" "$4}' tools/checks.tsv | sort -u)
rc=0
while read -r pkg flags; do
  [ -z "$pkg" ] && continue
  [ "$flags" = "-" ] && flags=""
  echo "prebuild $pkg $flags"
  go test -tags verif $flags -count=1 -run '^$' "$pkg" || rc=1
done <<<"$pkgs"
exit $rc
