#!/bin/bash
# tools/tryseed.sh <name> <patch.diff> <check-id>... : apply a seeded change to a scratch worktree of /repo HEAD and run
# the given checks against it from a scratch copy of /verif. Prints per-check exit code and VIOLATION lines. Cleans up.
name=$1; patch=$2; shift 2
wt=/tmp/ts-$name; vv=/tmp/tv-$name
git -C /repo worktree remove --force $wt 2>/dev/null; rm -rf $wt $vv
git -C /repo worktree add --detach $wt HEAD >/dev/null 2>&1 || { echo "worktree failed"; exit 2; }
if ! git -C $wt apply "$patch"; then echo "PATCH DOES NOT APPLY"; git -C /repo worktree remove --force $wt; exit 2; fi
rsync -a --exclude .git --exclude .out --exclude replays /verif/ $vv/
for id in "$@"; do
  out=$(VERIF_DIR=$vv VERIF_REPO=$wt VERIF_SEED=${VERIF_SEED:-1} $vv/check $id 2>&1); rc=$?
  echo "== $id rc=$rc"
  echo "$out" | grep -E '^(VIOLATION|  detail|BROKEN|SUMMARY)' | cut -c1-360 | head -8
done
git -C /repo worktree remove --force $wt; rm -rf $vv
