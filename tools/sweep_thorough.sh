#!/bin/bash
# tools/sweep_thorough.sh [parallelism] : run every registered check's thorough tier (seed from VERIF_SEED, default 1),
# P at a time; prints one line per check and the VIOLATION / BROKEN lines of the non-zero ones.
export VERIF_DIR=$(pwd)
P=${1:-4}
ids=$(awk '!/^#/ && NF {print $1}' tools/checks.tsv | sort -u)
if [ -n "$SWEEP_IDS" ]; then ids=$SWEEP_IDS; fi
mkdir -p .out/thorough
one() {
  id=$1
  start=$(date +%s)
  ./check $id --tier thorough > .out/thorough/$id.txt 2>&1; rc=$?
  echo "done id=$id rc=$rc secs=$(( $(date +%s) - start )) $(grep '^SUMMARY' .out/thorough/$id.txt | tail -1 | sed 's/SUMMARY //')"
  if [ $rc -ne 0 ]; then grep -E '^(VIOLATION|  detail|BROKEN|INCONCLUSIVE)' .out/thorough/$id.txt | cut -c1-400 | head -8; fi
}
export -f one
echo $ids | tr ' ' '\n' | xargs -P $P -I{} bash -c 'one {}'
echo "THOROUGH-SWEEP-FINISHED"
