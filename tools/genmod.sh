#!/bin/bash
# Regenerate /verif/go.mod and go.sum from /repo's module files (see DESIGN.md 1.1).
set -e
V=${VERIF_DIR:-/verif}
R=${VERIF_REPO:-/repo}
tmp=$(mktemp)
{
  echo "module verif"
  echo
  # everything but the module line
  grep -v '^module ' "$R/go.mod"
  echo
  echo "require github.com/lavanet/lava/v5 v5.0.0"
  echo "require github.com/anishathalye/porcupine v1.3.0"
  echo "replace github.com/lavanet/lava/v5 => $R"
} > "$tmp"
if ! cmp -s "$tmp" "$V/go.mod"; then cp "$tmp" "$V/go.mod"; fi
rm -f "$tmp"
tmp=$(mktemp)
{
  cat "$R/go.sum"
  cat "$V/tools/porcupine.sum"
} | sort -u > "$tmp"
if ! cmp -s "$tmp" "$V/go.sum"; then cp "$tmp" "$V/go.sum"; fi
rm -f "$tmp"
