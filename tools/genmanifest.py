#!/usr/bin/env python3
"""Generate MANIFEST.json from tools/checks.tsv + tools/props_meta.json (+ hook commits)."""
import json, subprocess, os
V = '/verif'
meta = json.load(open(f'{V}/tools/props_meta.json'))
props = [json.loads(l) for l in open(f'{V}/properties.jsonl')]
claimed = {}
for l in open(f'{V}/tools/checks.tsv'):
    l = l.strip()
    if not l or l.startswith('#'): continue
    f = l.split()
    claimed[f[0]] = f
hook_commits = []
try:
    out = subprocess.check_output(['git', '-C', '/repo', 'log', '--format=%H %s'], text=True)
    for line in out.splitlines():
        h, s = line.split(' ', 1)
        if s.startswith('verif hook'):
            hook_commits.append(h)
except Exception:
    pass
checks, na = [], []
for p in props:
    pid = p['id']
    m = meta.get(pid, {})
    if pid in claimed and not m.get('not_applicable') and 'text' in m:
        c = {
            'property_id': pid,
            'quick_cmd': f'./check {pid} --tier quick',
            'thorough_cmd': f'./check {pid} --tier thorough',
            'evidence_file': f'/verif/evidence/{pid}.json',
            'replay_cmd_template': f'./check {pid} --replay {{path}}',
            'engine': claimed[pid][1],
            'level_claimed': {'category': m.get('category', 'exploration'), 'text': m['text'], 'design_ref': f'DESIGN.md section 3, {pid}'},
            'level_note': m['note'],
            'technique': m['technique'],
        }
        checks.append(c)
    else:
        na.append({'property_id': pid, 'reason': m.get('na_reason', 'check not built yet in this session; see DESIGN.md section 3 for the planned monitor')})
man = {
    'version': 1,
    'setup_cmd': './tools/setup.sh',
    'hooks': {
        'guard': 'verif (Go build tag)',
        'enable': 'go test -tags verif (every ./check run builds /repo through the replace directive with the tag on)',
        'baseline_off_cmd': "cd /repo && GOFLAGS=-mod=mod go test -vet=off -count=1 -timeout 25m ./...",
        'source_commits': hook_commits,
        'add_only': True,
    },
    'engines': [
        {'name': 'storemon', 'path': '/verif/storemon', 'serves_properties': ['C14', 'C15'], 'kind_free_text': 'reference-model monitors over the real FixationStore / TimerStore on an IAVL store'},
        {'name': 'chainmon', 'path': '/verif/chainmon', 'serves_properties': [], 'kind_free_text': 'chain driver (real keepers + msg servers, atomic tx emulation) with online monitors over events, stores and bank deltas'},
    ],
    'checks': checks,
    'not_applicable': na,
    'notes': 'Technique family: runtime monitoring. All checks are go test -tags verif packages in /verif built against /repo working tree via a replace directive; see DESIGN.md.',
}
json.dump(man, open(f'{V}/MANIFEST.json', 'w'), indent=1)
print(f'claimed {len(checks)} not_applicable {len(na)} hook commits {len(hook_commits)}')
