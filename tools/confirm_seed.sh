#!/bin/bash
# tools/confirm_seed.sh <ID> [check ids...] : confirm a seeded change produced by a sub-agent in /tmp/seed-<ID>/SEEDED
# (patch applies, repo builds, demo passes without / fails with the change), store it under /verif/seeded/<ID>/ and
# run the given checks (default: the property's own) against it.
id=$1; shift
pre=${SEED_PREFIX:-seed}; suf=${SEED_SUFFIX:-}
src=/tmp/$pre-$id/SEEDED
[ -f $src/patch.diff ] || { echo "no $src/patch.diff"; exit 2; }
export GOFLAGS=-mod=mod GOPROXY=off GOSUMDB=off GOTOOLCHAIN=local
demo_path=$(jq -r .demo_path $src/meta.json); demo_cmd=$(jq -r .demo_cmd $src/meta.json)
wt=/tmp/cf-$id$suf
git -C /repo worktree remove --force $wt 2>/dev/null; rm -rf $wt
git -C /repo worktree add --detach $wt HEAD >/dev/null 2>&1
mkdir -p $wt/$(dirname $demo_path)
cp /tmp/$pre-$id/$demo_path $wt/$demo_path 2>/dev/null || cp $src/demo/$(basename $demo_path) $wt/$demo_path
echo "--- demo WITHOUT the change (must pass)"
(cd $wt && eval "$demo_cmd" 2>&1 | tail -3); 
(cd $wt && eval "$demo_cmd" >/dev/null 2>&1); rc_without=$?
git -C $wt apply $src/patch.diff || { echo "PATCH DOES NOT APPLY to /repo HEAD"; git -C /repo worktree remove --force $wt; exit 2; }
echo "--- build with the change"
(cd $wt && go build ./... 2>&1 | tail -3); 
echo "--- demo WITH the change (must fail)"
(cd $wt && eval "$demo_cmd" 2>&1 | grep -E "^(--- FAIL|FAIL|ok|panic)" | head -5)
(cd $wt && eval "$demo_cmd" >/dev/null 2>&1); rc_with=$?
echo "demo rc without=$rc_without with=$rc_with"
git -C /repo worktree remove --force $wt
if [ $rc_without -eq 0 ] && [ $rc_with -ne 0 ]; then
  mkdir -p /verif/seeded/$id$suf/demo
  cp $src/patch.diff /verif/seeded/$id$suf/patch.diff
  cp /tmp/$pre-$id/$demo_path /verif/seeded/$id$suf/demo/ 2>/dev/null || cp $src/demo/* /verif/seeded/$id$suf/demo/
  jq --arg c "demo passes on /repo HEAD (rc=$rc_without) and fails with patch.diff applied (rc=$rc_with); confirmed by tools/confirm_seed.sh in a scratch worktree" '. + {confirmed: $c}' $src/meta.json > /verif/seeded/$id$suf/meta.json
  echo "CONFIRMED -> /verif/seeded/$id$suf"
  checks="$@"; [ -z "$checks" ] && checks=$id
  /verif/tools/tryseed.sh sd-$id$suf /verif/seeded/$id$suf/patch.diff $checks
else
  echo "NOT CONFIRMED"
fi
