#!/bin/bash
# tools/breaks.sh : hand-written breaks of properties, applied to scratch worktrees (never to /repo); shows which check fires.
# format of each entry: name|check ids|file|perl substitution
run() {
  name=$1; checks=$2; file=$3; subst=$4
  wt=/tmp/bk-$name
  git -C /repo worktree remove --force $wt 2>/dev/null; rm -rf $wt
  git -C /repo worktree add --detach $wt HEAD >/dev/null 2>&1
  perl -0pi -e "$subst" $wt/$file
  if git -C $wt diff --quiet; then echo "BREAK $name: substitution did not match"; git -C /repo worktree remove --force $wt; return; fi
  git -C $wt diff > /tmp/breaks/$name.diff
  git -C /repo worktree remove --force $wt
  echo "BREAK $name ($file)"
  /verif/tools/tryseed.sh bk-$name /tmp/breaks/$name.diff $checks
}
only=$1
while IFS='|' read -r name checks file subst; do
  [ -z "$name" ] && continue
  case $name in \#*) continue;; esac
  if [ -n "$only" ] && [ "$only" != "$name" ]; then continue; fi
  run "$name" "$checks" "$file" "$subst"
done < /verif/tools/breaks.list
