#!/bin/bash
# tools/sweep.sh <seed>... : run every registered check's quick tier for the given seeds; print a table of non-zero exits.
# Uses the directory it is started from as VERIF_DIR (works in a `vp run` snapshot).
export VERIF_DIR=$(pwd)
seeds="$@"; [ -z "$seeds" ] && seeds="1 2 3"
ids=$(awk '!/^#/ && NF {print $1}' tools/checks.tsv | sort -u)
if [ -n "$SWEEP_IDS" ]; then ids=$SWEEP_IDS; fi
bad=0
for s in $seeds; do
  for id in $ids; do
    out=$(VERIF_SEED=$s ./check $id 2>&1); rc=$?
    summ=$(echo "$out" | grep '^SUMMARY' | tail -1)
    if [ $rc -ne 0 ]; then bad=$((bad+1)); echo "NONZERO id=$id seed=$s rc=$rc"; echo "$out" | grep -E '^(VIOLATION|  detail|BROKEN|INCONCLUSIVE)' | cut -c1-400 | head -8; fi
    echo "done id=$id seed=$s rc=$rc $(echo $summ | sed 's/SUMMARY //')"
  done
done
echo "SWEEP-FINISHED nonzero=$bad"
